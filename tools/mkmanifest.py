import json
NA = {
 "C03": "symplecticity is a differential property (Jacobian of a deterministic map): no schedule, fault, history or randomness for a simulator to decide; needs numerical differentiation, a different technique",
 "C05": "Hamiltonian/derivative consistency is a pure function of (pos, mom); deciding it needs finite differences against formulas, not simulation",
 "C06": "order of accuracy compares a deterministic map with a reference ODE/DAE solution over shrinking step sizes; pure numerical analysis of inputs",
 "C07": "exactness of component flows are closed-form identities of deterministic maps; nothing for a scheduler or fault injector to decide",
 "C08": "the momentum law is fixed by a linear map of the normal draw with no control flow depending on it; feeding basis vectors through the rng argument would be input generation, not simulation",
 "C10": "structured-matrix algebra vs dense algebra is differential testing of pure expression trees; the stateful part (lazy caches) is claimed as C19",
 "C11": "matrix parameter gradients are pure functions; needs numerical differentiation",
 "C20": "LogRepFloat is a one-field value type with no hidden state: its histories are folds of a pure binary function of inputs",
}

def chk(pid, level, text, note, technique, engine, ref):
    return {
        "property_id": pid,
        "quick_cmd": f"cd /verif && VERIF_TIER=quick /venv/bin/python -m checks.run {pid}",
        "thorough_cmd": f"cd /verif && VERIF_TIER=thorough /venv/bin/python -m checks.run {pid}",
        "evidence_file": f"/verif/evidence/{pid}.json",
        "replay_cmd_template": f"cd /verif && /venv/bin/python -m checks.run {pid} --replay {{path}}",
        "engine": engine,
        "level_claimed": {"category": level, "text": text, "design_ref": ref},
        "level_note": note,
        "technique": technique,
    }

checks = [
 chk("C01", "exploration",
     "For each seeded scenario the complete decision tree of the transition's internal random draws is enumerated with exact probabilities through a scripted generator (no sampling inside a scenario), for every start state in a window of a real integrator orbit; the stationarity equation, row sums, reported step counts and acceptance statistics are checked. Scenarios (systems, integrators, step sizes, settings, energy offsets) are a seeded sample.",
     "Exactness is limited to tree depth <= 3 (4 thorough) and orbits in <= 3 dimensions; orbit states identified by nearest neighbour; scenarios whose trajectories hit integrator errors or fragile criterion margins are discarded and counted.",
     "scripted random generator with exhaustive draw-tree enumeration per seeded scenario; conservation (stationarity) oracle", "E1 drawtree", "DESIGN.md section 4.1, 5 C01"),
 chk("C02", "exploration",
     "Every integrator step issued by real transitions along seeded chains (step sizes pushed beyond stability, randomised solver budgets and tolerances, deterministic NaN/inf regions) is monitored: the input state is byte-identical afterwards, a returned state reverses to its input within tolerance (scaled by the measured local expansion when rounding is amplified), and fault-free steps raise nothing but IntegratorError; plus direct n-step/flip/n-step lattice histories. The 'fails loudly' half is decided by fault injection, the 'for all states' half is sampled.",
     "Tolerances calibrated on the pinned tree; steps outside floating-point range (>1e8 or non-finite) are not judged; a reverse step that itself raises IntegratorError is inconclusive.",
     "fault-injected simulation with run-time reversal invariant at the integrator seam", "E3 faultsim", "DESIGN.md section 5 C02"),
 chk("C04", "exploration",
     "Constrained chains under solver-budget, tolerance and model-function faults: constraint and cotangent residuals are re-evaluated from scratch after every successful step and momentum draw; every projection-solver return is checked for residual < tolerance and Lagrange-multiplier form, every solver failure for being a ConvergenceError.",
     "Residual limits calibrated on the pinned tree; input space sampled along chains; oracle evaluations on fresh states with the injector paused.",
     "fault-injected simulation with run-time manifold invariants at integrator and solver seams", "E3 faultsim", "DESIGN.md section 5 C04"),
 chk("C12", "fault_enumeration",
     "For each seeded scenario a pilot run catalogues every model-function call inside transitions; one faulted chain is run for every (call index, applicable fault kind) up to a per-scenario budget, plus forced non-convergence of individual solves, multi-fault sequences and deterministic bad regions. Each transition from the first fault on must return a finite unchanged-or-candidate state with flags matching the errors actually raised; solvers must not return unconverged or leak foreign exceptions; healthy scenarios must make progress once faults stop.",
     "Exceptions are injected only while a solver is on the stack; liveness is asserted only for scenarios whose fault-free chain is flag-free; three classes of escapes from matrix constructors outside solver loops are listed as known findings (KNOWN_FINDINGS.txt).",
     "fault enumeration over call indices under deterministic simulation; containment oracle per transition", "E3 faultsim", "DESIGN.md section 5 C12"),
 chk("C13", "exploration",
     "Seeded search over sampler configurations and simulated process schedules; every returned row, statistic and final state is compared bitwise with a ground-truth log written at the moment each transition returns; storage variants and the durable disk image are compared too. Sampling of a large configuration x schedule space, not a proof.",
     "Trusted: the recording proxies and the scheduler (self-tested for determinism); workers are threads isolated by pickling; durable image = content at last flush.",
     "deterministic simulation of the process pool with seeded schedules; ground-truth log as reference model", "E2 procsim/chainsim", "DESIGN.md section 5 C13"),
 chk("C14", "exploration",
     "For one seed the run is repeated under seeded and adversarial simulated schedules, process counts (incl. None), chain counts and other chains' start points; outputs of the common chains must be bitwise equal and no generator state may repeat among always-drawing transition calls. The schedule space is sampled, not enumerated.",
     "Trusted: scheduler owns every interleaving at queue operations, worker start/exit and between any two transitions; within a transition a worker is not pre-empted (transitions share no state across workers after pickling).",
     "deterministic simulation with seeded schedule search; differential comparison across schedules/process counts", "E2 procsim/chainsim", "DESIGN.md section 5 C14"),
 chk("C15", "fault_enumeration",
     "For each seeded small configuration every in-iteration user-callback call index k (all k when the run makes <=60 such calls, a seeded subset otherwise) is used once as the crash point of a KeyboardInterrupt, single-task and broadcast; each interrupted run is compared with the uninterrupted run of the same seed.",
     "Interrupts arrive only where user code runs inside an iteration (the property's quantifier). Durable image = content at last flush. Broadcast delivery to workers is deferred to their next in-iteration callback.",
     "crash-point enumeration under deterministic simulation; prefix-consistency oracle against the uninterrupted run", "E2 procsim/chainsim", "DESIGN.md section 5 C15"),
 chk("C16", "exploration",
     "Seeded runs with recording adapters and transitions: the stage list as run must partition the iterations, parameters must be frozen in the main stage and equal to what the last stage with >=1 update finalized, empty stages must change nothing; plus direct drive of the stagers over seeded settings.",
     "Parameters observed are step size, metric (dense fingerprint) and the random-walk scale of the generic sampler; other transition attributes are not watched.",
     "deterministic simulation with recording adapters; stage/parameter timeline invariants", "E2 procsim/chainsim", "DESIGN.md section 5 C16"),
 chk("C17", "exploration",
     "Real adapters are driven directly with seeded position / acceptance histories (partitions among chains, permuted merge order, large offsets, all reducers and regularisation settings) and checked after every update and after finalize against batch formulas written from the documentation; in addition the adapter events of simulated multi-chain sample_chains runs are re-derived from the logged positions and acceptance statistics, including the log-2 crossing of the initial step size and the momentum refresh under the new metric.",
     "Reference formulas are the harness's reading of the docstrings and cited papers; tolerances scale with offset/spread as for any backward-stable algorithm (calibrated on the pinned tree).",
     "operation-history simulation against a batch reference model; adapter event log of deterministic simulated runs", "E4 histsim + E2 chainsim", "DESIGN.md section 5 C17"),
]

m = {
 "version": 1,
 "setup_cmd": "cd /verif && /venv/bin/python -m compileall -q simkit engines models checks selftest >/dev/null && /venv/bin/python -m selftest.setup_check",
 "hooks": {"guard": "MICI_VERIF", "enable": "no source hook is needed: every seam is an existing constructor argument or a module attribute patched inside the check's interpreter (DESIGN.md section 2); the guard name is reserved and unused",
           "baseline_off_cmd": "cd /repo && /venv/bin/python -m pytest -ra -q -p no:cacheprovider --timeout=900 --continue-on-collection-errors",
           "source_commits": [], "add_only": True},
 "engines": [
  {"name": "E1 drawtree", "path": "engines/drawtree.py", "serves_properties": ["C01"], "kind_free_text": "scripted generator; exact enumeration of a transition's internal draw tree per seeded scenario"},
  {"name": "E2 procsim/chainsim", "path": "engines/procsim.py", "serves_properties": ["C13", "C14", "C15", "C16", "C17"], "kind_free_text": "deterministic simulated process pool/queues/disk under a seeded baton scheduler; ground-truth log from recording transitions"},
  {"name": "E3 faultsim", "path": "engines/faultsim.py", "serves_properties": ["C02", "C04", "C12"], "kind_free_text": "fault injection into model functions and solvers with monitored integrator/solver proxies"},
  {"name": "E4 histsim", "path": "engines/histsim.py", "serves_properties": ["C09", "C18", "C19", "C17"], "kind_free_text": "seeded operation histories vs from-scratch reference models; cache-miss injection"},
 ],
 "checks": checks,
 "not_applicable": [{"property_id": k, "reason": v} for k, v in sorted(NA.items())],
 "notes": "Technique family: deterministic simulation with fault injection. See DESIGN.md.",
}
json.dump(m, open('/verif/MANIFEST.json', 'w'), indent=1)
print("checks:", [c["property_id"] for c in checks])
