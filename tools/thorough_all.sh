#!/bin/bash
# usage: tools/thorough_all.sh "C01 C02 ..." "0 1"  -> thorough tier per property and seed; summary lines only
cd "$(dirname "$0")/.."
for s in $2; do for p in $1; do
  out=$(VERIF_SEED=$s VERIF_TIER=thorough timeout 3600 /venv/bin/python -m checks.run $p 2>&1); rc=$?
  echo "$p seed=$s rc=$rc $(echo "$out" | grep -E "scenarios=" | sed 's/.*scenarios=/scenarios=/' | cut -c1-120)"
  echo "$out" | grep -E "^\[$p\] violation|HARNESS|VIOLATION" | cut -c1-600 | head -8
done; done
