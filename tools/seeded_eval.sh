#!/bin/bash
# usage: tools/seeded_eval.sh <seeded-id> "<props>" [tier] [seeds]
# Applies /verif/seeded/<id>/patch.diff to /repo, runs the given checks, reverts /repo. Prints one line per check.
id=$1; props=$2; tier=${3:-quick}; seeds=${4:-0}
cd /repo || exit 2
git diff --quiet || { echo "/repo not clean"; exit 2; }
git apply /verif/seeded/$id/patch.diff || { echo "patch does not apply"; exit 2; }
cd /verif
# evidence files must only ever describe runs on the unchanged tree: keep them aside
rm -rf /root/scratch/evidence_keep; cp -r /verif/evidence /root/scratch/evidence_keep
for s in $seeds; do for p in $props; do
  out=$(VERIF_SEED=$s VERIF_TIER=$tier timeout 3000 /venv/bin/python -m checks.run $p 2>&1); rc=$?
  echo "seeded=$id check=$p seed=$s tier=$tier rc=$rc"
  echo "$out" | grep -E "^\[$p\] violation" | cut -c1-500 | head -3
done; done
git -C /repo checkout -- . ; rm -f /verif/replays/*.json
rm -rf /verif/evidence; cp -r /root/scratch/evidence_keep /verif/evidence
