#!/bin/bash
# usage: tools/seeded_eval.sh <seeded-id> "<props>" [tier] [seeds]
# Runs the given checks against /verif/seeded/<id>/patch.diff and prints one line per check.
# Default: the patch is applied in a scratch worktree of /repo HEAD under /tmp (removed afterwards) and the checks
# are pointed at it with MICI_SRC, so /repo itself stays untouched (other runs may be reading it).
# SEEDED_INPLACE=1: the literal procedure - git -C /repo apply, run, git -C /repo checkout -- .
id=$1; props=$2; tier=${3:-quick}; seeds=${4:-0}
if [ "$SEEDED_INPLACE" = "1" ]; then
  cd /repo || exit 2
  git diff --quiet || { echo "/repo not clean"; exit 2; }
  git apply /verif/seeded/$id/patch.diff || { echo "patch does not apply"; exit 2; }
  src=/repo/src
else
  wt=/tmp/seval_$id
  rm -rf $wt; git -C /repo worktree prune
  git -C /repo worktree add -q --detach $wt HEAD || exit 2
  git -C $wt apply /verif/seeded/$id/patch.diff || { echo "patch does not apply"; git -C /repo worktree remove --force $wt; exit 2; }
  src=$wt/src
fi
cd /verif
# evidence files must only ever describe runs on the unchanged tree: keep them aside
rm -rf /root/scratch/evidence_keep; cp -r /verif/evidence /root/scratch/evidence_keep
for s in $seeds; do for p in $props; do
  out=$(MICI_SRC=$src VERIF_SEED=$s VERIF_TIER=$tier timeout 3000 /venv/bin/python -m checks.run $p 2>&1); rc=$?
  echo "seeded=$id check=$p seed=$s tier=$tier rc=$rc"
  echo "$out" | grep -E "^\[$p\] violation" | cut -c1-500 | head -3
done; done
if [ "$SEEDED_INPLACE" = "1" ]; then git -C /repo checkout -- . ; else git -C /repo worktree remove --force $wt; fi
rm -f /verif/replays/*.json
rm -rf /verif/evidence; cp -r /root/scratch/evidence_keep /verif/evidence
