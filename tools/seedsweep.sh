#!/bin/bash
# usage: tools/seedsweep.sh "C01 C02 ..." "1 2 3"   -> runs quick tier for each property and seed, prints one line each
cd "$(dirname "$0")/.."
for p in $1; do for s in $2; do
  out=$(VERIF_SEED=$s VERIF_TIER=quick timeout 1500 /venv/bin/python -m checks.run $p 2>&1); rc=$?
  echo "$p seed=$s rc=$rc $(echo "$out" | grep -E "scenarios=" | sed 's/.*scenarios=/scenarios=/' | cut -c1-110)"
  echo "$out" | grep -E "^\[$p\] violation|HARNESS" | cut -c1-400 | head -4
done; done
rm -f replays/*.json
