#!/bin/bash
# Re-run every kept seeded change against the check of its property (quick tier, given seeds); one line each.
seeds=${1:-0}
cd /verif
for d in seeded/*/; do
  id=$(basename $d)
  prop=$(/venv/bin/python -c "import json;print(json.load(open('$d/meta.json'))['property'])" 2>/dev/null)
  out=$(tools/seeded_eval.sh $id "$prop" quick "$seeds" 2>&1 | grep -v conda)
  hit=$(echo "$out" | grep -c "rc=1")
  tot=$(echo "$out" | grep -c "^seeded=")
  echo "$id $prop detected_in=$hit/$tot $(echo "$out" | grep violation | head -1 | cut -c1-140)"
done
