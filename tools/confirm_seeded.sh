#!/bin/bash
# usage: tools/confirm_seeded.sh <seeded-id> [--suite]
# In a scratch worktree of /repo HEAD (outside /repo and /verif): demo passes without the patch, fails with it;
# with --suite also runs the repository's baseline suite with the patch and compares with BASELINE stable_pass.
id=$1; suite=$2
wt=/tmp/confirm_$id
rm -rf $wt; git -C /repo worktree prune; git -C /repo worktree add -q --detach $wt HEAD || exit 2
cd $wt
PYTHONPATH=$wt/src timeout 600 /venv/bin/python /verif/seeded/$id/demo.py > /tmp/confirm_$id.orig.log 2>&1; rc0=$?
git apply /verif/seeded/$id/patch.diff || { echo "$id: patch does not apply"; cd /; git -C /repo worktree remove --force $wt; exit 2; }
PYTHONPATH=$wt/src timeout 600 /venv/bin/python /verif/seeded/$id/demo.py > /tmp/confirm_$id.mut.log 2>&1; rc1=$?
echo "$id: demo on original rc=$rc0, with patch rc=$rc1"
if [ "$suite" = "--suite" ]; then
  PYTHONPATH=$wt/src /venv/bin/python -m pytest -q -p no:cacheprovider --timeout=900 --continue-on-collection-errors -n 14 --junitxml=/tmp/confirm_$id.xml > /tmp/confirm_$id.suite.log 2>&1
  /venv/bin/python - "$id" <<'PY'
import json, sys, xml.etree.ElementTree as ET
i=sys.argv[1]
stable=set(json.load(open('/root/.vp/BASELINE.json'))["stable_pass"])
passed=set()
for tc in ET.parse(f'/tmp/confirm_{i}.xml').iter('testcase'):
    if not any(ch.tag in ('failure','error','skipped') for ch in tc): passed.add(f"{tc.get('classname')}::{tc.get('name')}")
missing=sorted(stable-passed)
print(f"{i}: baseline suite with patch: stable={len(stable)} passing={len(stable&passed)} stable-but-failing={len(missing)} {missing[:3]}")
PY
fi
cd /; git -C /repo worktree remove --force $wt; rm -f /tmp/confirm_$id.xml
