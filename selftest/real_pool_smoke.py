"""Fidelity smoke test of the process-pool stub: the same sample_chains call run through
real multiprocessing (n_process=2) and through the simulated pool must return identical
values (and both must equal the sequential run).  Not a registered check: real scheduling
is not controlled, so this is evidence about the stub, never about a property."""
import sys
from pathlib import Path

sys.path.insert(0, str(Path(__file__).resolve().parent.parent))
from simkit import core

core.setup_mici_path()


def main():
    import copy
    import warnings

    import numpy as np

    warnings.simplefilter("ignore")
    np.seterr(all="ignore")
    from engines import chainsim
    from simkit.core import rng_for

    n_ok = 0
    for i in range(6):
        rng = rng_for("realpool", i)
        scn = chainsim.random_scenario(rng)
        if scn["sampler"] == "generic":
            continue
        scn.update(n_chain=3, n_warm_up=6, n_main=4, storage="mem", n_process=1, trace="pos", adapters=["dual"], stager=None, init="state_mom", trace_warm_up=bool(i % 2))
        seq = chainsim.run_scenario_raw(scn)
        s2 = copy.deepcopy(scn)
        s2["n_process"] = 2
        sim = chainsim.run_scenario_raw(s2)
        # real pool: same scenario, but without installing the simulator
        import mici.samplers  # noqa: F401

        sampler, system, _ = chainsim.build_sampler(scn)
        for k in list(sampler.transitions):
            sampler.transitions[k] = sampler.transitions[k]._inner  # unwrap recording proxies
        inits = chainsim.build_init_states(scn, system)
        import mici

        res = sampler.sample_chains(scn["n_warm_up"], scn["n_main"], inits, n_process=2, display_progress=False, trace_warm_up=scn["trace_warm_up"],
                                    trace_funcs=chainsim.TRACE_SETS["pos"], adapters=[mici.adapters.DualAveragingStepSizeAdapter()])
        real = chainsim.snapshot_outputs(res, False)
        d = [chainsim.outputs_digest(x) for x in (seq.outputs, sim.outputs, real)]
        print(i, scn["sampler"], scn["system"]["kind"], "seq==sim", d[0] == d[1], "sim==real", d[1] == d[2])
        if not (d[0] == d[1] == d[2]):
            print("MISMATCH")
            return 1
        n_ok += 1
    print("real pool smoke ok:", n_ok, "configurations")
    return 0


if __name__ == "__main__":
    sys.exit(main())
