"""setup_cmd body: imports work offline, mici comes from /repo, one tiny simulated run is deterministic."""
import sys
from pathlib import Path

sys.path.insert(0, str(Path(__file__).resolve().parent.parent))
from simkit import core

core.setup_mici_path()


def main():
    import warnings

    import numpy as np

    warnings.simplefilter("ignore")
    np.seterr(all="ignore")
    import mici

    assert mici.__file__.startswith(core.os.environ.get("MICI_SRC", "/repo/src")), mici.__file__
    from engines import chainsim
    from simkit.core import rng_for

    digs = []
    for rep in range(2):
        d = []
        for i in range(6):
            scn = chainsim.random_scenario(rng_for("setup", i))
            rec = chainsim.run_scenario_raw(scn)
            d.append((rec.outcome, chainsim.outputs_digest(rec.outputs), rec.event_digest))
        digs.append(d)
    assert digs[0] == digs[1], "simulated runs are not deterministic"
    print("setup ok: mici from", mici.__file__, "numpy", np.__version__)
    return 0


if __name__ == "__main__":
    sys.exit(main())
