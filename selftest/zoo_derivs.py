"""Self-test: every analytic derivative in models.zoo agrees with finite differences."""
import sys, random
from pathlib import Path
sys.path.insert(0, str(Path(__file__).resolve().parent.parent))
from simkit import core
core.setup_mici_path()
import numpy as np
from models import zoo


def fd_grad(f, q, h=1e-6):
    g = np.zeros((q.size,) + np.shape(f(q)))
    for i in range(q.size):
        e = np.zeros(q.size); e[i] = h
        g[i] = (np.asarray(f(q + e)) - np.asarray(f(q - e))) / (2 * h)
    return g


def main():
    rng = random.Random(1)
    worst = 0.0
    for dim in (1, 2, 3, 4):
        for _ in range(5):
            t = zoo.Quartic(**zoo.quartic_from_seed(rng, dim, offset=3.0, scale=1.7))
            q = np.array([rng.uniform(-1, 1) for _ in range(dim)])
            worst = max(worst, np.abs(fd_grad(t.nld, q) - t.grad(q)).max())
            worst = max(worst, np.abs(fd_grad(t.grad, q) - t.hess(q)).max())
            m = np.array([[rng.gauss(0, 1) for _ in range(dim)] for _ in range(dim)])
            fdm = fd_grad(lambda x: np.sum(t.hess(x) * m), q)
            worst = max(worst, np.abs(fdm - t.mtp(q)(m)).max())
            g, v = t.grad_t(q); assert v == t.nld(q)
            for mf, vjp in ((zoo.m_scalar, zoo.vjp_scalar), (zoo.m_diag, zoo.vjp_diag), (zoo.m_dense, zoo.vjp_dense), (zoo.m_chol, zoo.vjp_chol)):
                val = np.asarray(mf(q))
                v = np.array(np.random.default_rng(3).standard_normal(val.shape))
                if mf is zoo.m_chol:
                    v = np.tril(v)
                fdv = fd_grad(lambda x: np.sum(np.asarray(mf(x)) * v), q)
                worst = max(worst, np.abs(fdv - vjp(q)(v)).max())
            for name, (c, j, jt, mhp, mhpt) in zoo.CONSTRAINTS.items():
                if dim < 3 and name in ("two", "lin"):
                    continue
                if dim < 2:
                    continue
                jq = fd_grad(c, q).T
                worst = max(worst, np.abs(jq - j(q)).max())
                mm = np.array(np.random.default_rng(4).standard_normal(j(q).shape))
                fdm = fd_grad(lambda x: np.sum(j(x) * mm), q)
                worst = max(worst, np.abs(fdm - mhp(q)(mm)).max())
                for v in range(3):
                    s = zoo.on_manifold_start(name, dim, v)
                    assert np.abs(c(s)).max() < 1e-12, (name, dim, v, c(s))
    print("worst derivative error", worst)
    assert worst < 1e-6
    # every spec builds
    n = 0
    for i in range(300):
        spec = zoo.random_system_spec(rng)
        sysm, model = zoo.build_system(spec, hooked=bool(i % 2))
        ispec = zoo.random_integrator_spec(rng, spec["kind"], step_size=0.1)
        integ = zoo.build_integrator(sysm, ispec)
        import mici
        q = zoo.start_position(spec, rng, i)
        st = mici.states.ChainState(pos=q, mom=None, dir=1)
        st.mom = sysm.sample_momentum(st, np.random.default_rng(i))
        try:
            integ.step(st)
        except mici.errors.IntegratorError:
            pass
        n += 1
    print("built and stepped", n, "systems")
    return 0

if __name__ == "__main__":
    sys.exit(main())
