"""Determinism self-test: same scenario => same result fingerprint,
 - twice in one interpreter, - with 1 and 16 batch workers (different worker histories),
 - in a fresh interpreter under another PYTHONHASHSEED.

usage: python -m selftest.determinism C13 [C14 ...] [--n 40] [--tier quick]
"""
from __future__ import annotations

import importlib
import json
import os
import subprocess
import sys
from pathlib import Path

sys.path.insert(0, str(Path(__file__).resolve().parent.parent))
from simkit import core

core.setup_mici_path()


def fingerprint(res):
    r = {k: v for k, v in res.items() if k != "sample"}
    return core.digest(core.jsonable(r))


def _fp_task(args):
    modname, scn = args
    mod = importlib.import_module(modname)
    return fingerprint(mod.run_scenario(scn))


def fps(prop, n, tier, workers, stride=1):
    mod = importlib.import_module(f"checks.{prop.lower()}")
    scns = mod.scenarios(tier, core.base_seed())[: n * stride : stride]
    res = core.run_batch(_fp_task, [(mod.__name__, s) for s in scns], workers=workers, task_timeout_s=900)
    return [r if st == "ok" else f"ERR:{st}:{str(r)[:200]}" for st, r in res]


def main(argv):
    props, n, tier, child = [], 30, "quick", False
    it = iter(argv)
    for a in it:
        if a == "--n":
            n = int(next(it))
        elif a == "--tier":
            tier = next(it)
        elif a == "--child":
            child = True
        else:
            props.append(a.upper())
    if child:
        print(json.dumps({p: fps(p, n, tier, 1) for p in props}))
        return 0
    bad = 0
    for p in props:
        a = fps(p, n, tier, 1)
        b = fps(p, n, tier, 16)
        c = fps(p, n, tier, 5)
        env = dict(os.environ, PYTHONHASHSEED="4242")
        out = subprocess.run([sys.executable, "-m", "selftest.determinism", p, "--n", str(n), "--tier", tier, "--child"],
                             capture_output=True, text=True, env=env, cwd=str(core.VERIF_DIR), timeout=3000)
        try:
            d = json.loads(out.stdout.strip().splitlines()[-1])[p]
        except Exception:  # noqa: BLE001
            print(out.stdout[-500:], out.stderr[-1500:])
            d = ["child-failed"] * len(a)
        errs = [x for x in a if isinstance(x, str) and x.startswith("ERR")]
        mism = [i for i in range(len(a)) if not (a[i] == b[i] == c[i] == d[i])]
        print(f"{p}: {len(a)} scenarios, harness errors {len(errs)}, mismatching fingerprints {len(mism)} {mism[:10]}")
        if errs:
            print(errs[0])
        bad += len(mism) + len(errs)
    print("DETERMINISM", "OK" if bad == 0 else "FAILED")
    return 0 if bad == 0 else 1


if __name__ == "__main__":
    sys.exit(main(sys.argv[1:]))
