"""Oracles over one simulated sample_chains call (reference model = ground-truth log)."""

from __future__ import annotations

import numpy as np

from engines import chainsim
from engines.chainsim import _eq_nan
from simkit.core import violation


def transition_keys(rec):
    return list(rec.sampler.transitions.keys())


def stat_types(rec):
    out = {}
    for k, t in rec.sampler.transitions.items():
        st = t.statistic_types
        if st is not None:
            out[k] = dict(st)
    return out


def documented_discard(rec):
    """Outcomes that mici documents (AdaptationError) and that end a scenario early, and
    runs in which a chain left floating-point range (an accepted state beyond 1e30: energy
    overflow made the Hamiltonian -inf/NaN-free) so that an adapter's estimator input is
    numerically meaningless and its finalize raised a linear-algebra error."""
    if rec.outcome == "exception:AdaptationError":
        return "adaptation-error-raised"
    if rec.outcome and rec.outcome.startswith("exception:") and any(a["ev"] == "finalize-raised" for a in rec.log.adapter):
        for e in rec.log.entries:
            for var in ("pos", "mom"):
                x = e["state"].get(var)
                if x is not None and (not np.all(np.isfinite(x)) or np.max(np.abs(x)) > 1e30):
                    return "numerical-blow-up-before-adapter-finalize"
    for c in rec.log.calls:
        if c["outcome"] == "AdaptationError":
            return "adapter-initialisation-failed"
    return None


def n_rows(scn):
    return scn["n_warm_up"] + scn["n_main"] if scn.get("trace_warm_up") else scn["n_main"]


def row_of(scn, i):
    if scn.get("trace_warm_up"):
        return i
    return i - scn["n_warm_up"] if i >= scn["n_warm_up"] else None


def expected_trace_row(rec, it):
    """Expected traced values after iteration `it` (list of entries of one iteration)."""
    scn = rec.scn
    last = it[-1]
    tset = scn.get("trace", "pos")
    if tset == "default":
        if scn["sampler"] == "generic":
            return chainsim.apply_trace_set("pos", last["state"])
        return {"pos": last["state"]["pos"], "hamiltonian": last.get("h")}
    return chainsim.apply_trace_set(tset, last["state"])


def _fill_value(arr_dtype, declared_default=None):
    if declared_default is not None:
        return declared_default
    return np.nan if np.issubdtype(arr_dtype, np.inexact) else 0


def check_complete_run(rec, prop="C13"):
    """Row-by-row comparison of a *completed* run with the ground-truth log."""
    v = []
    scn = rec.scn
    out = rec.outputs
    keys = transition_keys(rec)
    T = len(keys)
    full, partial = chainsim.per_chain_iterations(rec, T)
    n_chain = scn["n_chain"]
    n_total = scn["n_warm_up"] + scn["n_main"]
    R = n_rows(scn)
    # the log itself: every chain ran every iteration exactly once
    for c in range(n_chain):
        n_it = len(full.get(c, []))
        if n_it != n_total or partial.get(c):
            v.append(
                violation(
                    "iteration-count",
                    f"{prop} iteration-count",
                    f"chain {c} performed {n_it} complete iterations (+{len(partial.get(c, []))} stray transition calls), expected {n_total}",
                )
            )
            return v
    # traces
    tset = scn.get("trace", "pos")
    want_none = tset in ("none", "empty")
    if want_none != (out["traces"] is None):
        v.append(violation("traces-none", f"{prop} traces-none", f"trace set {tset!r}: traces is {'None' if out['traces'] is None else 'not None'}"))
        return v
    if out["traces"] is not None:
        exp_keys = None
        for c in range(n_chain):
            for i, it in enumerate(full.get(c, [])):
                r = row_of(scn, i)
                if r is None:
                    continue
                exp = expected_trace_row(rec, it)
                if exp_keys is None:
                    exp_keys = set(exp)
                    if set(out["traces"]) != exp_keys:
                        v.append(violation("trace-keys", f"{prop} trace-keys", f"trace keys {sorted(out['traces'])} != expected {sorted(exp_keys)}"))
                        return v
                for k, val in exp.items():
                    arrs = out["traces"][k]
                    if len(arrs) != n_chain or arrs[c].shape[0] != R:
                        v.append(violation("trace-shape", f"{prop} trace-shape", f"trace {k}: {len(arrs)} chains, rows {arrs[c].shape[0]}, expected {n_chain} x {R}"))
                        return v
                    want_dtype = np.asarray(val).dtype
                    if arrs[c].dtype != want_dtype:
                        v.append(violation("trace-dtype", f"{prop} trace-dtype",
                                           f"trace[{k!r}] has dtype {arrs[c].dtype} but the traced quantity (last trace function returning that key) has dtype {want_dtype}: values are silently cast on assignment"))
                        return v
                    got = arrs[c][r]
                    want = np.asarray(val).astype(arrs[c].dtype)
                    if not _eq_nan(got, want):
                        v.append(
                            violation(
                                "trace-row",
                                f"{prop} trace-row",
                                f"trace[{k!r}][chain {c}][row {r}] = {np.asarray(got).tolist()} but state after iteration {i} gives {want.tolist()}",
                                chain=c,
                                row=r,
                                key=k,
                            )
                        )
                        return v
        if exp_keys is None:  # no recorded iteration: lengths only
            for k, arrs in out["traces"].items():
                if len(arrs) != n_chain or any(a.shape[0] != R for a in arrs):
                    v.append(violation("trace-shape", f"{prop} trace-shape", f"trace {k} lengths {[a.shape[0] for a in arrs]} expected {R}"))
                    return v
    # statistics
    st = stat_types(rec)
    generic = scn["sampler"] == "generic"
    exp_stat_keys = set(st) if generic else {"integration_transition"} & set(st) or {"integration_transition"}
    if set(out["stats"]) != exp_stat_keys:
        v.append(violation("stats-keys", f"{prop} stats-keys", f"statistics transitions {sorted(out['stats'])} != {sorted(exp_stat_keys)}"))
        return v
    for tk in exp_stat_keys:
        declared = st.get(tk, {})
        got = out["stats"][tk]
        if set(got) != set(declared):
            v.append(violation("stats-keys", f"{prop} stats-keys", f"statistics of {tk}: {sorted(got)} != declared {sorted(declared)}"))
            return v
        ti = keys.index(tk)
        for sk, (dt, default) in declared.items():
            arrs = got[sk]
            if len(arrs) != n_chain:
                v.append(violation("stats-shape", f"{prop} stats-shape", f"stat {tk}.{sk}: {len(arrs)} chain arrays, expected {n_chain}"))
                return v
            for c in range(n_chain):
                a = arrs[c]
                if a.shape != (R,) or a.dtype != np.dtype(dt):
                    v.append(violation("stats-shape", f"{prop} stats-shape", f"stat {tk}.{sk} chain {c}: shape {a.shape} dtype {a.dtype}, expected ({R},) {np.dtype(dt)}"))
                    return v
                for i, it in enumerate(full.get(c, [])):
                    r = row_of(scn, i)
                    if r is None:
                        continue
                    e = it[ti]
                    if e["stats"] is None or sk not in e["stats"]:
                        continue
                    want = np.asarray(e["stats"][sk]).astype(np.dtype(dt))
                    if not _eq_nan(a[r], want):
                        v.append(
                            violation(
                                "stats-row",
                                f"{prop} stats-row",
                                f"stats[{tk}.{sk}][chain {c}][row {r}] = {a[r]!r} but transition in iteration {i} returned {e['stats'][sk]!r}",
                                chain=c,
                                row=r,
                                key=sk,
                            )
                        )
                        return v
    v.extend(check_final_states(rec, full, list(range(n_chain)), prop))
    return v


def check_final_states(rec, full, chains, prop):
    v = []
    out = rec.outputs
    scn = rec.scn
    fs = out["final_states"]
    if len(fs) != len(chains):
        v.append(violation("final-states-count", f"{prop} final-states-count", f"{len(fs)} final states returned for chains {chains}"))
        return v
    # index of last entry per chain in the global log
    last_idx = {}
    for idx, e in enumerate(rec.log.entries):
        last_idx[e["chain"]] = idx
    for pos_i, c in enumerate(chains):
        got = fs[pos_i]
        its = full.get(c, [])
        if its:
            want = its[-1][-1]["state"]
            src = f"state after iteration {len(its) - 1}"
        else:
            want = dict(rec.init_states[c])
            src = "initial state"
        for var in ("pos", "dir", "tag", "mom"):
            if var not in want:
                continue
            if var not in got:
                v.append(violation("final-state", f"{prop} final-state", f"final state of chain {c} lacks variable {var}"))
                return v
            if var == "mom":
                if want["mom"] is None:
                    continue
                # metric adapters legitimately redraw the momentum in finalize
                redrawn = any(
                    a["ev"] == "finalize" and any(a.get("mom_changed", [])) and a["seq"] > last_idx.get(c, -1)
                    for a in rec.log.adapter
                )
                if redrawn:
                    continue
            if not _eq_nan(np.asarray(got[var]), np.asarray(want[var])):
                v.append(
                    violation(
                        "final-state",
                        f"{prop} final-state",
                        f"final_states[{pos_i}].{var} = {np.asarray(got[var]).tolist()} but chain {c} {src} has {np.asarray(want[var]).tolist()}",
                        chain=c,
                        var=var,
                    )
                )
                return v
        for var in ("pos", "mom"):
            if var in got and got[var] is not None and not np.all(np.isfinite(got[var])):
                if its and np.all(np.isfinite(its[-1][-1]["state"][var])):
                    v.append(violation("final-state-nonfinite", f"{prop} final-state-nonfinite", f"final state of chain {c} has non-finite {var}"))
    return v


def check_durability(rec, prop):
    """Memory-mapped outputs: durable image (content at last flush) equals what is returned."""
    v = []
    scn = rec.scn
    use_memmap = scn.get("storage", "mem") != "mem" or scn.get("n_process", 1) != 1
    if n_rows(scn) == 0:
        return v  # zero-length arrays cannot be memory-mapped and hold no values
    recorded = set()
    for idx, c in enumerate(rec.log.calls):
        if (c["has_traces"] or c["has_stats"]) and any(e["call"] == idx for e in rec.log.entries):
            recorded.add(c["chain"])
    for name, d in (rec.durable or {}).items():
        chain = int(name.rsplit(":", 1)[1])
        if use_memmap and d.get("is_memmap") and d.get("flushes") == 0 and chain not in recorded:
            continue  # nothing was ever written to this file except the initial fill
        if use_memmap:
            if not d.get("is_memmap"):
                v.append(violation("storage-kind", f"{prop} storage-kind", f"{name} is not memory-mapped although memmap storage is in force"))
                return v
            if not d.get("durable_equal"):
                v.append(
                    violation(
                        "not-durable",
                        f"{prop} not-durable",
                        f"{name}: content returned differs from what had been flushed to disk (flushes seen: {d.get('flushes')})",
                    )
                )
                return v
    if scn.get("storage") == "memmap_dir" and rec.files_equal is False:
        v.append(violation("files-differ", f"{prop} files-differ", ".npy files in the user directory do not load to the returned values"))
    return v
