"""E2 kernel: deterministic simulated process pool / manager / queues / disk for mici.samplers.

Tasks are real threads that run strictly one at a time; the baton is handed over only
at simulator yield points, and the task to run next is decided by a seeded scheduler
(or by an explicit pick list on replay).  Every process boundary of the real system
(task arguments, queue items, task results) is a real pickle round trip.

Nothing here is installed into mici permanently: ``installed(sim)`` patches the names
``mici.samplers.Pool`` and ``mici.samplers.SyncManager`` (the multiprocessing classes mici
imports; looked up by mici at call time, so its own ``_pool_context_manager`` and
``_ignore_sigint_manager`` run unchanged on top of the simulated classes), the disk seam
``numpy.lib.format.open_memmap`` and ``os.cpu_count`` for the duration of one run inside the
check's own interpreter.

Signal dispositions are modelled as the operating system does: the parent's disposition of
SIGINT is the real one of this process (``signal.getsignal``), pool workers inherit the
parent's disposition at the moment the pool is created, the manager process runs the
initializer it is started with.  A simulated interrupt aimed at a process that ignores
SIGINT is dropped.
"""

from __future__ import annotations

import contextlib
import os
import pickle
import queue as _queue
import random
import signal
import threading

import numpy as np

from simkit.core import EventLog


class SimAbort(BaseException):
    """Raised in every task when the simulation is aborted (deadlock / step cap)."""


_CURRENT = None  # the Sim of the run in progress (one per interpreter at a time)


def current():
    return _CURRENT


POLICIES = (
    "random",
    "lowest",
    "highest",
    "roundrobin",
    "run_to_completion",
    "workers_first",
    "main_first",
)


class Sim:
    def __init__(
        self,
        seed: int,
        *,
        policy: str = "random",
        preempt: float = 0.5,
        explicit=None,
        step_cap: int = 400_000,
        cpu_count: int = 3,
    ):
        self.rng = random.Random(seed)
        self.policy = policy
        self.preempt = preempt
        self.explicit = list(explicit) if explicit is not None else None
        self.step_cap = step_cap
        self.cpu_count = cpu_count
        self.tasks = {}
        self.current = None
        self.cv = threading.Condition()
        self.log = EventLog()
        self.picks = []  # task name chosen at each scheduling decision
        self.queues = {}
        self.aborted = None  # reason string when aborted
        self.steps = 0
        self.n_spawned = 0
        self.assign = {}  # chain index -> worker name (filled by chainsim)
        self.completion = []  # chain indices in completion order (filled by chainsim)
        self.main_name = None
        self.interrupt_pending = set()  # task names with a pending broadcast interrupt
        # Every object that crossed a simulated process boundary is kept alive until the
        # run ends, so that id() values (mici keys state caches by id(system)) are never
        # reused within a run: otherwise cache hits would depend on allocator history.
        self.keepalive = []

    def loads(self, data):
        obj = pickle.loads(data)
        self.keepalive.append(obj)
        return obj

    # ---- scheduling core ------------------------------------------------------------
    def register_main(self):
        me = threading.current_thread().name
        self.main_name = me
        self.tasks[me] = {"blocked": None, "done": False, "killed": False}
        self.current = me

    def _runnable(self):
        return [
            n
            for n in sorted(self.tasks)
            if not self.tasks[n]["done"]
            and (self.tasks[n]["blocked"] is None or self.tasks[n]["blocked"]())
        ]

    def _abort(self, why):
        if self.aborted is None:
            self.aborted = why
            self.log.add("abort", why)
        self.cv.notify_all()

    def _pick(self, run, me):
        self.steps += 1
        if self.steps > self.step_cap:
            self._abort("step-cap")
            raise SimAbort
        i = len(self.picks)
        if self.explicit is not None and i < len(self.explicit):
            want = self.explicit[i]
            nxt = want if want in run else run[0]
        elif self.explicit is not None:
            nxt = run[0]
        else:
            nxt = self._policy_pick(run, me)
        self.picks.append(nxt)
        return nxt

    def _policy_pick(self, run, me):
        p = self.policy
        if len(run) == 1:
            return run[0]
        if p == "lowest":
            return run[0]
        if p == "highest":
            return run[-1]
        if p == "run_to_completion":
            return me if me in run else run[0]
        if p == "roundrobin":
            later = [n for n in run if n > (me or "")]
            return later[0] if later else run[0]
        if p == "workers_first":
            w = [n for n in run if n != self.main_name]
            return self.rng.choice(w) if w else run[0]
        if p == "main_first":
            return self.main_name if self.main_name in run else self.rng.choice(run)
        # random with pre-emption rate
        if me in run and self.rng.random() >= self.preempt:
            return me
        return run[self.rng.randrange(len(run))]

    def _switch(self, me):
        # called with cv held by `me`
        if self.aborted:
            raise SimAbort
        run = self._runnable()
        if not run:
            self._abort("deadlock")
            raise SimAbort
        nxt = self._pick(run, me)
        self.current = nxt
        if nxt == me:
            return
        self.log.add("run", nxt)
        self.cv.notify_all()
        while self.current != me and not self.aborted:
            self.cv.wait()
        if self.aborted:
            raise SimAbort

    def deliver_interrupt(self):
        self._deliver_interrupt(threading.current_thread().name)

    def _deliver_interrupt(self, me):
        # a broadcast interrupt reaches the parent at its next scheduling point
        if me == self.main_name and me in self.interrupt_pending:
            self.interrupt_pending.discard(me)
            if parent_ignores_sigint():
                self.log.add("interrupt-dropped", me)
                self.interrupts_dropped = getattr(self, "interrupts_dropped", 0) + 1
                return
            self.log.add("interrupt-delivered", me)
            raise KeyboardInterrupt

    def yield_(self, why=""):
        me = threading.current_thread().name
        if me not in self.tasks:
            return
        with self.cv:
            self._switch(me)

    def block_until(self, cond, why=""):
        me = threading.current_thread().name
        with self.cv:
            if cond():
                self._switch(me)
                return
            self.tasks[me]["blocked"] = cond
            self.log.add("block", me, why)
            try:
                self._switch(me)
            finally:
                self.tasks[me]["blocked"] = None

    def spawn(self, name, fn):
        def body():
            with self.cv:
                while self.current != name and not self.aborted:
                    self.cv.wait()
            t = self.tasks[name]
            try:
                if self.aborted:
                    raise SimAbort
                self.log.add("start", name)
                t["result"] = fn()
            except SimAbort:
                t["killed"] = True
            except Exception as e:  # noqa: BLE001 - delivered by AsyncResult.get()
                t["error"] = e
                self.log.add("task-error", name, type(e).__name__)
            except BaseException as e:  # noqa: BLE001 - a killed pool worker
                t["killed"] = True
                t["killed_by"] = type(e).__name__
                self.log.add("task-killed", name, type(e).__name__)
            finally:
                with self.cv:
                    t["done"] = True
                    self.log.add("exit", name)
                    if not self.aborted:
                        run = self._runnable()
                        if run:
                            try:
                                nxt = self._pick(run, None)
                                self.current = nxt
                                self.log.add("run", nxt)
                            except SimAbort:
                                pass
                        elif not all(x["done"] for x in self.tasks.values()):
                            self._abort("deadlock")
                    self.cv.notify_all()

        th = threading.Thread(target=body, name=name, daemon=True)
        self.tasks[name] = {"blocked": None, "done": False, "killed": False, "thread": th}
        self.n_spawned += 1
        th.start()

    def schedule_digest(self):
        from simkit.core import digest

        return digest(self.picks)


# ---- simulated multiprocessing objects ---------------------------------------------


def _get_queue(qid):
    return _CURRENT.queues[qid]


class SimQueue:
    def __init__(self, sim):
        self.qid = len(sim.queues)
        sim.queues[self.qid] = self
        self.items = []
        self.n_put = 0

    def __reduce__(self):
        return (_get_queue, (self.qid,))

    def put(self, item):
        sim = _CURRENT
        data = pickle.dumps(item)
        sim.yield_("put")
        self.items.append(data)
        self.n_put += 1
        sim.log.add("put", self.qid, threading.current_thread().name)

    def get(self, block=True):
        sim = _CURRENT
        sim.yield_("get")
        sim.deliver_interrupt()
        if not self.items:
            if not block:
                raise _queue.Empty
            sim.block_until(lambda: bool(self.items), "get-wait")
            sim.deliver_interrupt()
        sim.log.add("get", self.qid, threading.current_thread().name)
        return sim.loads(self.items.pop(0))

    def empty(self):
        _CURRENT.yield_("empty")
        _CURRENT.deliver_interrupt()
        return not self.items


class SimManager:
    """Stand-in for multiprocessing.managers.SyncManager (start / shutdown / Queue)."""

    def __init__(self, sim):
        self.sim = sim
        self.started = False

    def start(self, initializer=None, initargs=()):
        # the initializer runs in the manager's server process, never in the parent
        self.started = True
        self.sim.manager_initializer = getattr(initializer, "__name__", repr(initializer))
        self.sim.log.add("manager-start", self.sim.manager_initializer)

    def shutdown(self):
        self.started = False

    def Queue(self):  # noqa: N802 - multiprocessing API
        return SimQueue(self.sim)


def parent_ignores_sigint():
    try:
        return signal.getsignal(signal.SIGINT) is signal.SIG_IGN
    except Exception:  # noqa: BLE001
        return False


class SimAsyncResult:
    def __init__(self, sim, names):
        self.sim, self.names = sim, names

    def _all_done(self):
        return all(self.sim.tasks[n]["done"] for n in self.names)

    def ready(self):
        return self._all_done() and not any(self.sim.tasks[n]["killed"] for n in self.names)

    def get(self, timeout=None):  # noqa: ARG002
        sim = self.sim
        # a killed worker never delivers its result: block for ever (=> deadlock => no-return)
        sim.block_until(self.ready, "results.get")
        out = []
        for n in self.names:
            t = sim.tasks[n]
            if "error" in t:
                raise sim.loads(pickle.dumps(t["error"]))
            out.append(sim.loads(pickle.dumps(t["result"])))
        return out


class SimPool:
    def __init__(self, sim, n_process):
        self.sim = sim
        self.n_process = sim.cpu_count if n_process is None else n_process
        self.names = []
        sim.n_pools = getattr(sim, "n_pools", 0) + 1
        self.pool_id = sim.n_pools
        # forked workers inherit the parent's SIGINT disposition as of now
        self.sigint_ignored = parent_ignores_sigint()

    def starmap_async(self, fn, arglist):
        names = []
        for i, args in enumerate(arglist):
            args = self.sim.loads(pickle.dumps(args))  # process boundary
            name = f"w{self.pool_id:02d}_{i}"
            self.sim.spawn(name, lambda a=args: fn(*a))
            self.sim.tasks[name]["sigint_ignored"] = self.sigint_ignored
            names.append(name)
        self.names.extend(names)
        self.sim.yield_("starmap_async")
        return SimAsyncResult(self.sim, names)

    def close(self):
        pass

    def terminate(self):
        pass

    def join(self):
        self.close_and_join()

    def close_and_join(self):
        if self.names:
            self.sim.block_until(
                lambda: all(self.sim.tasks[n]["done"] for n in self.names), "pool.join"
            )


# ---- disk seam -----------------------------------------------------------------------


class Disk:
    """Model of what is durable: a file's content as of the last flush() on any handle."""

    def __init__(self):
        self.files = {}  # str(path) -> dict(opens, flushes, durable)
        self.flush_calls = 0

    def on_open(self, path):
        self.files.setdefault(str(path), {"opens": 0, "flushes": 0, "durable": None})[
            "opens"
        ] += 1

    def on_flush(self, path, content):
        f = self.files.setdefault(str(path), {"opens": 0, "flushes": 0, "durable": None})
        f["flushes"] += 1
        f["durable"] = content
        self.flush_calls += 1


class TrackedMemmap(np.memmap):
    _disk = None

    def __array_finalize__(self, obj):
        super().__array_finalize__(obj)
        self._disk = getattr(obj, "_disk", None)

    def flush(self):
        super().flush()
        d = self._disk
        if d is not None and self.filename is not None:
            d.on_flush(self.filename, np.array(np.asarray(self), copy=True))


@contextlib.contextmanager
def installed(sim: Sim | None, disk: Disk | None = None):
    """Install the simulated pool/manager (if sim) and disk seam (if disk) for one run."""
    global _CURRENT
    import numpy.lib.format as npf

    import mici.samplers as ms

    saved = (ms.Pool, ms.SyncManager, npf.open_memmap, os.cpu_count)
    prev = _CURRENT
    try:
        if sim is not None:
            _CURRENT = sim
            sim.register_main()

            ms.Pool = lambda n_process=None, *a, **k: SimPool(sim, n_process)  # noqa: ARG005
            ms.SyncManager = lambda *a, **k: SimManager(sim)  # noqa: ARG005
            os.cpu_count = lambda: sim.cpu_count
        if disk is not None:
            real_open = saved[2]

            def open_memmap(filename, *a, **k):
                mm = real_open(filename, *a, **k)
                tm = mm.view(TrackedMemmap)
                tm._disk = disk
                disk.on_open(filename)
                return tm

            npf.open_memmap = open_memmap
        yield
    finally:
        ms.Pool, ms.SyncManager, npf.open_memmap, os.cpu_count = saved
        _CURRENT = prev


def sim_yield(why=""):
    s = _CURRENT
    if s is not None:
        s.yield_(why)
