"""E4 — operation-history simulator for matrix objects (lazy caches as hidden state).

A pool of matrices (every class and constructor option, sizes 1-4, partly built from
other pool members) is driven by seeded operation lists; a *twin* pool built from equal
parameter copies receives the same constructions but reads its lazy properties in a
different seeded order.  Invariants are checked after every step.
"""

from __future__ import annotations

import copy
import pickle
import random

import numpy as np

from simkit.core import violation

PROPS = ["array", "T", "inv", "sqrt", "eigval", "eigvec", "diagonal", "log_abs_det", "factor", "lu_and_piv",
         "capacitance_matrix", "grad_log_abs_det", "hash", "inv.array", "T.array", "sqrt.array", "inv.inv.array", "T.T.array"]
LAZY_ATTRS = ["_inv", "_transpose", "_sqrt", "_hash", "_array", "_eigval", "_eigvec", "_factor", "_lu_and_piv", "_capacitance_matrix"]
BASE_CLASSES = [
    "Identity", "ScaledIdentity", "PositiveScaledIdentity", "Diagonal", "PositiveDiagonal", "Triangular", "InverseTriangular",
    "TriangularFactoredDefinite", "TriangularFactoredPositiveDefinite", "DenseDefinite", "DensePositiveDefinite",
    "DensePositiveDefiniteProduct", "DenseSquare", "DenseSymmetric", "Orthogonal", "ScaledOrthogonal", "EigendecomposedSymmetric",
    "EigendecomposedPositiveDefinite", "SoftAbs", "DenseRectangular",
]
COMPOSITE_CLASSES = ["SquareBlockDiagonal", "SymmetricBlockDiagonal", "PositiveDefiniteBlockDiagonal", "BlockRow", "BlockColumn",
                     "SquareLowRank", "SymmetricLowRank", "PositiveDefiniteLowRank"]


def _spd(g, n):
    a = g.standard_normal((n, n))
    return a @ a.T / n + np.eye(n)


def _orth(g, n):
    q, _ = np.linalg.qr(g.standard_normal((n, n)))
    return q


class Built:
    """A constructed matrix with the arrays the 'caller' supplied and their snapshots."""

    def __init__(self, matrix, caller_arrays, parents=()):
        self.m = matrix
        self.caller = caller_arrays  # list of ndarrays handed to the constructor
        self.snap = [a.tobytes() for a in caller_arrays]
        self.parents = parents
        self.first = {}  # property name -> first observed canonical value
        self.dense = None
        # derived through an operation on pool members: its parameters were computed by the library
        # (possibly along different code paths depending on the parents' caches), not supplied by the caller
        self.derived = any(getattr(p, "derived", False) for p in parents)
        # lazy caches the constructor left empty: only these may be dropped later (a legal miss)
        self.empty_at_build = {a for a in LAZY_ATTRS if a in matrix.__dict__ and matrix.__dict__[a] is None}


def lay(a, mode):
    """Same values, different memory layout: 0 C-contiguous, 1 Fortran-contiguous,
    2 non-contiguous strided view into a larger array."""
    a = np.asarray(a)
    if mode % 3 == 0 or a.ndim == 0:
        return np.ascontiguousarray(a)
    if mode % 3 == 1:
        return np.asfortranarray(a) if a.ndim == 2 else np.ascontiguousarray(a)
    if a.ndim == 1:
        big = np.zeros(2 * a.size + 1, dtype=a.dtype)
        big[1::2] = a
        return big[1::2]
    big = np.zeros((2 * a.shape[0], 2 * a.shape[1] + 1), dtype=a.dtype)
    big[::2, 1::2] = a
    return big[::2, 1::2]


def build_base(cls, n, seed, opt, layout=0):
    """Construct a matrix of a base class from seed; returns Built.  `layout` selects the
    memory layout of the caller-supplied arrays (values are identical for every layout)."""
    b = _build_base(cls, n, seed, opt, layout)
    return b


def _build_base(cls, n, seed, opt, layout):
    from mici import matrices as M

    g = np.random.default_rng(seed)
    L = lambda x: lay(x, layout)  # noqa: E731
    if cls == "Identity":
        return Built(M.IdentityMatrix(n), [])
    if cls == "ScaledIdentity":
        return Built(M.ScaledIdentityMatrix(float(g.choice([-2.5, 0.5, 3.0])), n), [])
    if cls == "PositiveScaledIdentity":
        return Built(M.PositiveScaledIdentityMatrix(float(g.uniform(0.5, 3)), n), [])
    if cls == "Diagonal":
        d = L(g.uniform(0.5, 2, n) * g.choice([-1, 1], n))
        return Built(M.DiagonalMatrix(d), [d])
    if cls == "PositiveDiagonal":
        d = L(g.uniform(0.5, 2, n))
        return Built(M.PositiveDiagonalMatrix(d), [d])
    if cls in ("Triangular", "InverseTriangular"):
        lower = bool(opt % 2)
        mk = bool((opt // 2) % 2)
        a = g.standard_normal((n, n)) * 0.4 + np.diag(g.uniform(0.8, 1.6, n))
        if not mk:
            a = np.tril(a) if lower else np.triu(a)
        a = L(a)
        c = M.TriangularMatrix if cls == "Triangular" else M.InverseTriangularMatrix
        return Built(c(a, lower=lower, make_triangular=mk), [a])
    if cls in ("TriangularFactoredDefinite", "TriangularFactoredPositiveDefinite"):
        lower = bool(opt % 2)
        a = L(g.standard_normal((n, n)) * 0.4 + np.diag(g.uniform(0.8, 1.6, n)))
        as_matrix = (opt // 2) % 3
        if as_matrix == 1:
            f = M.TriangularMatrix(a, lower=lower)
        elif as_matrix == 2:
            f = M.InverseTriangularMatrix(a, lower=lower)
        else:
            f = a
        if cls == "TriangularFactoredDefinite":
            sign = -1 if (opt // 6) % 2 else 1
            return Built(M.TriangularFactoredDefiniteMatrix(f, sign=sign, factor_is_lower=lower if as_matrix == 0 else None), [a])
        return Built(M.TriangularFactoredPositiveDefiniteMatrix(f, factor_is_lower=lower), [a])
    if cls in ("DenseDefinite", "DensePositiveDefinite"):
        a = _spd(g, n)
        with_factor = bool(opt % 2)
        posdef = cls == "DensePositiveDefinite" or not bool((opt // 2) % 2)
        arr = L(a if posdef else -a)
        fac = M.TriangularMatrix(np.linalg.cholesky(a), lower=True, make_triangular=False) if with_factor else None
        if cls == "DensePositiveDefinite":
            return Built(M.DensePositiveDefiniteMatrix(arr, fac), [arr])
        return Built(M.DenseDefiniteMatrix(arr, fac, is_posdef=posdef), [arr])
    if cls == "DensePositiveDefiniteProduct":
        r = L(g.standard_normal((n, n + 1 + opt % 2)))
        pd = M.PositiveDiagonalMatrix(g.uniform(0.5, 2, r.shape[1])) if (opt // 2) % 2 else None
        return Built(M.DensePositiveDefiniteProductMatrix(r, pd), [r])
    if cls == "DenseSquare":
        a = L(g.standard_normal((n, n)) + 2 * np.eye(n))
        if opt % 2:
            import scipy.linalg as sla

            lu = sla.lu_factor(a)
            return Built(M.DenseSquareMatrix(a, lu, False), [a, lu[0], lu[1]])
        return Built(M.DenseSquareMatrix(a), [a])
    if cls == "DenseSymmetric":
        a = g.standard_normal((n, n))
        a = L(a + a.T + np.diag(g.choice([-3, 3], n)))
        if opt % 5 == 1:
            w, v = np.linalg.eigh(a)
            return Built(M.DenseSymmetricMatrix(a, v, w), [a, v, w])
        if opt % 5 == 2:
            w, v = np.linalg.eigh(a)
            return Built(M.DenseSymmetricMatrix(a, M.OrthogonalMatrix(v), w), [a, v, w])
        if opt % 5 == 3:
            # only HALF of a precomputed decomposition, and not in eigh's (ascending) order
            w, v = np.linalg.eigh(a)
            v = L(np.array(v[:, ::-1]))
            return Built(M.DenseSymmetricMatrix(a, eigvec=v), [a, v])
        if opt % 5 == 4:
            w, v = np.linalg.eigh(a)
            w = np.array(w[::-1])
            return Built(M.DenseSymmetricMatrix(a, eigval=w), [a, w])
        return Built(M.DenseSymmetricMatrix(a), [a])
    if cls == "Orthogonal":
        q = L(_orth(g, n))
        return Built(M.OrthogonalMatrix(q), [q])
    if cls == "ScaledOrthogonal":
        q = L(_orth(g, n))
        return Built(M.ScaledOrthogonalMatrix(float(g.choice([-1.5, 0.7, 2.0])), q), [q])
    if cls in ("EigendecomposedSymmetric", "EigendecomposedPositiveDefinite"):
        q = L(_orth(g, n))
        w = g.uniform(0.5, 2, n)
        if cls == "EigendecomposedSymmetric":
            w = w * g.choice([-1, 1], n)
        w = L(w)
        ev = M.OrthogonalMatrix(q) if opt % 2 else q
        c = M.EigendecomposedSymmetricMatrix if cls == "EigendecomposedSymmetric" else M.EigendecomposedPositiveDefiniteMatrix
        return Built(c(ev, w), [q, w])
    if cls == "SoftAbs":
        a = g.standard_normal((n, n))
        a = L(a + a.T)
        return Built(M.SoftAbsRegularizedPositiveDefiniteMatrix(a, float(g.choice([0.5, 1.0, 2.0]))), [a])
    if cls == "DenseRectangular":
        a = L(g.standard_normal((n, n + 1 + opt % 2)))
        return Built(M.DenseRectangularMatrix(a), [a])
    raise KeyError(cls)


def build_composite(cls, parts, seed, opt):
    from mici import matrices as M

    g = np.random.default_rng(seed)
    ms = [p.m for p in parts]
    if cls == "SquareBlockDiagonal":
        return Built(M.SquareBlockDiagonalMatrix(ms), [], tuple(parts))
    if cls == "SymmetricBlockDiagonal":
        return Built(M.SymmetricBlockDiagonalMatrix(ms), [], tuple(parts))
    if cls == "PositiveDefiniteBlockDiagonal":
        return Built(M.PositiveDefiniteBlockDiagonalMatrix(ms), [], tuple(parts))
    if cls == "BlockRow":
        return Built(M.BlockRowMatrix(ms), [], tuple(parts))
    if cls == "BlockColumn":
        return Built(M.BlockColumnMatrix(ms), [], tuple(parts))
    sq = ms[0]
    n = sq.shape[0]
    k = 1 + opt % 2
    f = g.standard_normal((n, k)) * 0.5
    sign = 1
    if cls == "SquareLowRank":
        r = g.standard_normal((k, n)) * 0.5
        inner = M.DenseSquareMatrix(g.standard_normal((k, k)) + 2 * np.eye(k)) if (opt // 2) % 2 else None
        return Built(M.SquareLowRankUpdateMatrix(M.DenseRectangularMatrix(f), M.DenseRectangularMatrix(r), sq, inner, None, sign), [f, r], tuple(parts))
    if cls == "SymmetricLowRank":
        inner = M.DiagonalMatrix(g.uniform(0.5, 2, k)) if (opt // 2) % 2 else None
        return Built(M.SymmetricLowRankUpdateMatrix(M.DenseRectangularMatrix(f), sq, inner, None, sign), [f], tuple(parts))
    if cls == "PositiveDefiniteLowRank":
        inner = M.PositiveDiagonalMatrix(g.uniform(0.5, 2, k)) if (opt // 2) % 2 else None
        return Built(M.PositiveDefiniteLowRankUpdateMatrix(M.DenseRectangularMatrix(f), sq, inner, None, sign), [f], tuple(parts))
    raise KeyError(cls)


def has_prop(m, prop):
    from mici import matrices as M

    head = prop.split(".")[0]
    if head == "array":
        return m.shape[0] is not None
    if head == "T":
        return True
    if head == "inv":
        return isinstance(m, M.InvertibleMatrix)
    if head == "sqrt":
        return isinstance(m, M.PositiveDefiniteMatrix)
    if head in ("eigval", "eigvec"):
        return isinstance(m, M.SymmetricMatrix) or hasattr(type(m), head)
    if head == "diagonal":
        return m.shape[0] is not None
    if head == "log_abs_det":
        return isinstance(m, M.SquareMatrix)
    if head == "factor":
        return hasattr(type(m), "factor")
    if head == "lu_and_piv":
        return hasattr(type(m), "lu_and_piv")
    if head == "capacitance_matrix":
        return hasattr(type(m), "capacitance_matrix")
    if head == "grad_log_abs_det":
        return isinstance(m, M.DifferentiableMatrix) and getattr(m, "is_differentiable", True)
    if head == "hash":
        return True
    return False


def canon(val):
    from mici import matrices as M

    if isinstance(val, M.Matrix):
        if val.shape[0] is None:
            return ("matrix-implicit", type(val).__name__)
        return ("matrix", np.array(val.array, dtype=float, copy=True))
    if isinstance(val, tuple):
        return ("tuple", tuple(canon(v) for v in val))
    if isinstance(val, (int, np.integer)) and not isinstance(val, bool):
        return ("int", int(val))
    return ("value", np.array(val, dtype=float, copy=True))


def same(a, b, rtol=1e-9):
    if a[0] != b[0]:
        return False
    if a[0] == "tuple":
        return len(a[1]) == len(b[1]) and all(same(x, y, rtol) for x, y in zip(a[1], b[1]))
    if a[0] in ("int", "matrix-implicit"):
        return a[1] == b[1]
    x, y = a[1], b[1]
    if x.shape != y.shape:
        return False
    scale = 1.0 + (float(np.max(np.abs(y))) if y.size else 0.0)
    return bool(np.allclose(x, y, rtol=rtol, atol=rtol * scale, equal_nan=True))


def read_prop(m, prop):
    if prop == "hash":
        return hash(m)
    val = m
    for part in prop.split("."):
        val = getattr(val, part)
    return val


class MatrixMachine:
    def __init__(self, seed):
        self.pool = []  # Built
        self.twins = []  # Built with equal parameters
        self.violations = []
        self.rng_twin = random.Random(seed ^ 0x5EED)
        self.n_reads = 0
        self.n_ops = 0
        self.op_counts = {}
        self.lazy_drops = 0
        self.write_attempts = 0
        self.writes_refused = 0

    def _viol(self, cls, sig, msg):
        self.violations.append(violation(cls, sig, msg))

    def add(self, builder):
        a, b = builder(0), builder(1)  # both built before either is added; twin uses another layout
        self.pool.append(a)
        self.twins.append(b)
        return len(self.pool) - 1

    # ---- invariants ----
    def check_invariants(self, context):
        for which, pool in (("object", self.pool), ("twin", self.twins)):
            for i, b in enumerate(pool):
                for k, (arr, snap) in enumerate(zip(b.caller, b.snap)):
                    if arr.tobytes() != snap:
                        self._viol("caller-array-changed", f"caller-array-changed:{type(b.m).__name__}",
                                   f"array #{k} supplied to the constructor of {which} {i} ({type(b.m).__name__}) changed content after {context}")
                        return
                if b.dense is not None:
                    cur = np.asarray(b.m.array)
                    if cur.tobytes() != b.dense.tobytes():
                        self._viol("operand-changed", f"operand-changed:{type(b.m).__name__}",
                                   f"dense array of {which} {i} ({type(b.m).__name__}) changed after {context}")
                        return

    def _observe(self, b, prop, context, who):
        m = b.m
        if not has_prop(m, prop):
            return None
        try:
            raw = read_prop(m, prop)
            if prop == "eigval":
                # an eigendecomposition is unique only up to ordering: compare the sorted spectrum
                val = ("value", np.sort(np.array(raw, dtype=float, copy=True).ravel()))
            elif prop == "eigvec" and m.shape[0] is not None:
                # ... and the eigenvectors through the matrix they reconstruct with the object's own eigenvalues
                w = np.asarray(m.eigval, dtype=float)
                v = np.asarray(raw.array if hasattr(raw, "array") else raw, dtype=float)
                val = ("value", (v * w) @ v.T)
            else:
                val = canon(raw)
        except (RuntimeError, NotImplementedError, AttributeError):
            # AttributeError: the property exists on the class but a component does not support it
            # (e.g. eigval of a block-diagonal matrix with a non-symmetric block): not available
            return None
        except Exception as e:  # noqa: BLE001
            from mici.errors import LinAlgError

            if isinstance(e, (LinAlgError, np.linalg.LinAlgError)):
                return None
            self._viol("property-raised", f"property-raised:{type(m).__name__}.{prop}:{type(e).__name__}", f"{who} {type(m).__name__}.{prop} raised {type(e).__name__}: {e} after {context}")
            return None
        self.n_reads += 1
        if prop == "array" and b.dense is None:
            b.dense = np.array(np.asarray(m.array), copy=True)
        if prop in b.first:
            if not same(val, b.first[prop]):
                self._viol("property-unstable", f"property-unstable:{type(m).__name__}.{prop}",
                           f"{who} {type(m).__name__}.{prop} differs from the value it returned first; after {context}")
        else:
            b.first[prop] = val
        return val

    def read(self, i, prop, context):
        a, t = self.pool[i], self.twins[i]
        va = self._observe(a, prop, context, "object")
        # the twin reads some *other* properties first, then this one
        for _ in range(self.rng_twin.randrange(3)):
            self._observe(t, self.rng_twin.choice(PROPS), context, "twin")
        vt = self._observe(t, prop, context, "twin")
        if prop == "hash" and a.derived:
            return  # hashes are exact: derived parameters may differ in the last bits between code paths
        if va is not None and vt is not None and not same(va, vt):
            self._viol("access-order-dependence", f"access-order-dependence:{type(a.m).__name__}.{prop}",
                       f"{type(a.m).__name__}.{prop} of two matrices built from equal parameters differs depending on which properties were read first; after {context}")

    def equality_laws(self, context):
        for i, (a, t) in enumerate(zip(self.pool, self.twins)):
            if a.derived:
                continue
            try:
                eq = a.m == t.m
                ha, ht = hash(a.m), hash(t.m)
            except Exception as e:  # noqa: BLE001
                self._viol("eq-raised", f"eq-raised:{type(a.m).__name__}:{type(e).__name__}", f"== / hash of {type(a.m).__name__} raised {type(e).__name__}: {e}")
                return
            if not eq:
                self._viol("twin-not-equal", f"twin-not-equal:{type(a.m).__name__}", f"two {type(a.m).__name__} built from equal parameters compare unequal after {context}")
                return
            if ha != ht:
                self._viol("twin-hash-differs", f"twin-hash-differs:{type(a.m).__name__}", f"two equal {type(a.m).__name__} hash differently after {context}")
                return
        n = len(self.pool)
        for i in range(n):
            for j in range(i + 1, n):
                a, b = self.pool[i].m, self.pool[j].m
                try:
                    if a == b and a.shape[0] is not None and b.shape[0] is not None:
                        xa, xb = np.asarray(a.array, dtype=float), np.asarray(b.array, dtype=float)
                        # dense arrays of implicit matrices are computed numerically: equal up to rounding
                        if xa.shape != xb.shape or not np.allclose(xa, xb, rtol=1e-9, atol=1e-9 * (1 + np.abs(xb).max())):
                            self._viol("equal-but-different-arrays", f"equal-but-different-arrays:{type(a).__name__}",
                                       f"pool objects {i} and {j} ({type(a).__name__}) compare equal but their dense arrays differ")
                            return
                        if hash(a) != hash(b):
                            self._viol("equal-but-different-hash", f"equal-but-different-hash:{type(a).__name__}", f"equal objects {i}, {j} hash differently")
                            return
                except Exception:  # noqa: BLE001
                    continue

    # ---- operations ----
    def run(self, ops):
        from mici import matrices as M

        history = []
        for op in ops:
            if self.violations:
                return
            kind = op[0]
            self.op_counts[kind] = self.op_counts.get(kind, 0) + 1
            history.append(op)
            ctx = str(history[-10:])
            try:
                self._exec(op, ctx, M)
            except Exception as e:  # noqa: BLE001
                from mici.errors import LinAlgError

                if isinstance(e, (LinAlgError, np.linalg.LinAlgError, NotImplementedError, RuntimeError)):
                    pass
                elif kind == "composite" and isinstance(e, (ValueError, TypeError)):
                    pass  # constructor precondition not met by these pool members
                elif kind in ("scalar", "div", "neg", "T", "inv", "sqrt", "matmat") and isinstance(e, (ValueError, TypeError)):
                    # an algebraic operation the class hierarchy rejects (e.g. a negative multiple of a nested
                    # positive-definite block-diagonal matrix): algebra is C10's subject, not immutability
                    self.probe_op_rejected = getattr(self, "probe_op_rejected", 0) + 1
                else:
                    self._viol("op-raised", f"op-raised:{kind}:{type(e).__name__}", f"operation {op} raised {type(e).__name__}: {e}; history {ctx}")
                    return
            self.n_ops += 1
            self.check_invariants(ctx)
        if not self.violations:
            self.equality_laws("the whole history")
        if not self.violations:
            for i in range(len(self.pool)):
                for prop in PROPS:
                    self.read(i, prop, "final sweep")
                    if self.violations:
                        return

    def _exec(self, op, ctx, M):
        kind = op[0]
        if kind == "new":
            _, cls, n, seed, opt = op
            lay0 = seed % 3
            self.add(lambda k: build_base(cls, n, seed, opt, lay0 + k))
            return
        if not self.pool:
            return
        i = op[1] % len(self.pool)
        a, t = self.pool[i], self.twins[i]
        if kind == "composite":
            _, _, cls, js, seed, opt = op
            idx = [i] + [j % len(self.pool) for j in js]
            need = {"SymmetricBlockDiagonal": M.SymmetricMatrix, "PositiveDefiniteBlockDiagonal": M.PositiveDefiniteMatrix,
                    "SquareBlockDiagonal": M.SquareMatrix, "SquareLowRank": M.InvertibleMatrix, "SymmetricLowRank": M.SymmetricMatrix,
                    "PositiveDefiniteLowRank": M.PositiveDefiniteMatrix}.get(cls, M.Matrix)
            if cls.endswith("LowRank"):
                idx = idx[:1]
            if not all(isinstance(self.pool[k].m, need) and self.pool[k].m.shape[0] is not None for k in idx):
                return
            if cls == "SymmetricLowRank" and not isinstance(self.pool[idx[0]].m, M.InvertibleMatrix):
                return
            if cls == "BlockRow" and len({self.pool[k].m.shape[0] for k in idx}) > 1:
                return
            if cls == "BlockColumn" and len({self.pool[k].m.shape[1] for k in idx}) > 1:
                return
            if sum(self.pool[k].m.shape[0] for k in idx) > 8:
                return
            pa = [self.pool[k] for k in idx]
            pt = [self.twins[k] for k in idx]
            na, nt = build_composite(cls, pa, seed, opt), build_composite(cls, pt, seed, opt)
            self.pool.append(na)
            self.twins.append(nt)
        elif kind == "read":
            self.read(i, op[2], ctx)
        elif kind in ("matvec", "rmatvec", "matmat_arr"):
            m = a.m
            if m.shape[0] is None:
                n0 = n1 = 3
            else:
                n0, n1 = m.shape
            g = np.random.default_rng(op[2])
            if kind == "matvec":
                x = g.standard_normal(n1)
                xs = x.copy()
                y, yt = m @ x, t.m @ x.copy()
            elif kind == "rmatvec":
                x = g.standard_normal(n0)
                xs = x.copy()
                y, yt = x @ m, x.copy() @ t.m
            else:
                x = g.standard_normal((n1, 2))
                xs = x.copy()
                y, yt = m @ x, t.m @ x.copy()
            if x.tobytes() != xs.tobytes():
                self._viol("operand-changed", f"operand-changed:array-operand:{type(m).__name__}", f"{kind} changed its array operand; {ctx}")
            if not np.allclose(np.asarray(y), np.asarray(yt), rtol=1e-9, atol=1e-9 * (1 + np.abs(np.asarray(y)).max())):
                self._viol("access-order-dependence", f"access-order-dependence:{type(m).__name__}.{kind}", f"{kind} differs between twins; {ctx}")
            if isinstance(y, np.ndarray) and y.flags.writeable and np.shares_memory(y, x):
                self._viol("result-aliases-operand", f"result-aliases-operand:{type(m).__name__}", f"{kind} returned an array sharing memory with its array operand; {ctx}")
        elif kind in ("scalar", "div", "neg", "T", "inv", "sqrt", "matmat"):
            def derive(b, other=None):
                m = b.m
                if kind == "scalar":
                    return op[2] * m if op[3] else m * op[2]
                if kind == "div":
                    return m / op[2]
                if kind == "neg":
                    return -m
                if kind == "T":
                    return m.T
                if kind == "inv":
                    return m.inv
                if kind == "sqrt":
                    return m.sqrt
                return m @ other.m

            if kind == "inv" and not isinstance(a.m, M.InvertibleMatrix):
                return
            if kind == "sqrt" and not isinstance(a.m, M.PositiveDefiniteMatrix):
                return
            if kind == "matmat":
                j = op[2] % len(self.pool)
                b2, t2 = self.pool[j], self.twins[j]
                if a.m.shape[1] is None or b2.m.shape[0] is None or a.m.shape[1] != b2.m.shape[0]:
                    return
                na, nt = derive(a, b2), derive(t, t2)
                parents_a, parents_t = (a, b2), (t, t2)
            else:
                na, nt = derive(a), derive(t)
                parents_a, parents_t = (a,), (t,)
            if na is a.m:
                return
            ba, bt = Built(na, [], parents_a), Built(nt, [], parents_t)
            ba.derived = bt.derived = True
            self.pool.append(ba)
            self.twins.append(bt)
        elif kind in ("copy", "deepcopy", "pickle"):
            f = {"copy": copy.copy, "deepcopy": copy.deepcopy, "pickle": lambda x: pickle.loads(pickle.dumps(x))}[kind]
            c = f(a.m)
            try:
                eq = c == a.m
                he = hash(c) == hash(a.m)
            except Exception as e:  # noqa: BLE001
                self._viol("eq-raised", f"eq-raised:{type(a.m).__name__}:{type(e).__name__}", f"== / hash after {kind} raised {type(e).__name__}: {e}")
                return
            if not eq:
                self._viol("copy-not-equal", f"copy-not-equal:{kind}:{type(a.m).__name__}", f"{kind} of {type(a.m).__name__} does not equal its original; {ctx}")
            elif not he:
                self._viol("copy-hash-differs", f"copy-hash-differs:{kind}:{type(a.m).__name__}", f"{kind} of {type(a.m).__name__} hashes differently; {ctx}")
            self.pool.append(Built(c, [], (a,)))
            self.twins.append(Built(f(t.m), [], (t,)))
        elif kind == "drop":
            attr = op[2]
            m = a.m
            if attr in m.__dict__ and m.__dict__[attr] is not None and attr in a.empty_at_build and self._droppable(m, attr):
                m.__dict__[attr] = None
                self.lazy_drops += 1
        elif kind == "write":
            self._attempt_writes(a, ctx)

    @staticmethod
    def _droppable(m, attr):
        """A lazy cache entry the constructor would have left None (so dropping it is a legal miss)."""
        from mici import matrices as M

        if attr in ("_inv", "_transpose", "_sqrt", "_hash", "_capacitance_matrix", "_eigval", "_eigvec", "_factor", "_lu_and_piv"):
            if attr in ("_eigval", "_eigvec"):
                # the pair is computed together; drop both or none
                return False
            return True
        if attr == "_array":
            return isinstance(m, M.ImplicitArrayMatrix)
        return False

    def _attempt_writes(self, b, ctx):
        """Try to modify, in place, constructor-supplied arrays as exposed by public accessors."""
        from mici import matrices as M

        seen = set()

        def exposed(m, path, depth=0):
            if depth > 2 or id(m) in seen:
                return
            seen.add(id(m))
            for name in ("array", "diagonal", "eigval", "factor", "eigvec", "lu_and_piv", "blocks", "matrices", "scalar"):
                if not hasattr(type(m), name) and name not in getattr(m, "__dict__", {}):
                    continue
                try:
                    val = getattr(m, name)
                except Exception:  # noqa: BLE001
                    continue
                vals = val if isinstance(val, tuple) else (val,)
                for k, v in enumerate(vals):
                    if isinstance(v, np.ndarray):
                        yield f"{path}.{name}" + (f"[{k}]" if len(vals) > 1 else ""), v
                    elif isinstance(v, M.Matrix):
                        yield from exposed(v, f"{path}.{name}", depth + 1)

        for path, arr in exposed(b.m, type(b.m).__name__):
            owners = [c for c in b.caller if np.shares_memory(c, arr)]
            if not owners or arr.size == 0:
                continue
            self.write_attempts += 1
            before = arr.copy()
            try:
                arr[...] = arr + 1.0
            except (ValueError, TypeError):
                self.writes_refused += 1
                continue
            changed = not np.array_equal(arr, before)
            if changed:
                try:
                    arr[...] = before  # restore so that later invariants judge other things
                except Exception:  # noqa: BLE001
                    pass
                self._viol("parameter-writable", f"parameter-writable:{path}", f"constructor-supplied array exposed as {path} could be modified in place; {ctx}")
                return


def gen_ops(rng, n_ops):
    ops = []
    if rng.random() < 0.04:
        # large-array mini history (arrays beyond any small-size fast path / chunk threshold): construction, a few
        # reads and the final sweep only - the twin is built from the same values in another memory layout
        for _ in range(2):
            ops.append(["new", rng.choice(BASE_CLASSES), 48, rng.getrandbits(30), rng.randrange(24)])
        for _ in range(3):
            ops.append(["read", rng.randrange(2), rng.choice(["array", "T", "diagonal", "hash"])])
        return ops
    n_new = rng.choice([2, 3, 4])
    for _ in range(n_new):
        ops.append(["new", rng.choice(BASE_CLASSES), rng.choice([1, 2, 3, 4]), rng.getrandbits(30), rng.randrange(24)])
    while len(ops) < n_ops:
        r = rng.random()
        i = rng.randrange(8)
        if r < 0.40:
            ops.append(["read", i, rng.choice(PROPS)])
        elif r < 0.50:
            ops.append([rng.choice(["matvec", "rmatvec", "matmat_arr"]), i, rng.getrandbits(30)])
        elif r < 0.62:
            k = rng.choice(["scalar", "div", "neg", "T", "inv", "sqrt"])
            if k == "scalar":
                ops.append(["scalar", i, rng.choice([-2.0, 0.5, 3.0]), rng.random() < 0.5])
            elif k == "div":
                ops.append(["div", i, rng.choice([-2.0, 0.5, 3.0])])
            else:
                ops.append([k, i])
        elif r < 0.68:
            ops.append(["matmat", i, rng.randrange(8)])
        elif r < 0.76:
            ops.append([rng.choice(["copy", "deepcopy", "pickle"]), i])
        elif r < 0.84:
            ops.append(["drop", i, rng.choice(LAZY_ATTRS)])
        elif r < 0.90:
            ops.append(["write", i])
        elif r < 0.95:
            ops.append(["composite", i, rng.choice(COMPOSITE_CLASSES), [rng.randrange(8) for _ in range(rng.choice([0, 1, 2]))], rng.getrandbits(30), rng.randrange(8)])
        else:
            ops.append(["new", rng.choice(BASE_CLASSES), rng.choice([1, 2, 3, 4]), rng.getrandbits(30), rng.randrange(24)])
    return ops
