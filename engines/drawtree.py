"""E1 — draw-tree simulator: a scripted generator that turns every random choice inside
Transition.sample(state, rng) into a decision point with an exact probability, and a
stateless depth-first walk over the resulting decision tree.
"""

from __future__ import annotations

import math

import numpy as np


def tofloat(p):
    from mici.utils import LogRepFloat

    if isinstance(p, LogRepFloat):
        return p.val
    return float(p)


class PathCap(Exception):
    pass


class Script:
    """Decision script: a prefix of choices; records (choice, probabilities) of each decision."""

    def __init__(self, prefix):
        self.prefix = list(prefix)
        self.trace = []
        self.kinds = []

    def choose(self, probs, kind):
        i = len(self.trace)
        c = self.prefix[i] if i < len(self.prefix) else 0
        # skip zero-probability default branch
        if i >= len(self.prefix) and probs[c] <= 0:
            c = next(k for k, p in enumerate(probs) if p > 0)
        self.trace.append((c, probs))
        self.kinds.append(kind)
        return c


class LazyU:
    """A uniform(0,1) draw known only to lie in [lo, hi); refined by comparisons."""

    def __init__(self, script, kind="uniform"):
        self.s = script
        self.lo, self.hi = 0.0, 1.0
        self.kind = kind

    def _lt(self, t):  # event u < t
        t = tofloat(t)
        if math.isnan(t):
            return False
        if t >= self.hi:
            return True
        if t <= self.lo:
            return False
        p = (t - self.lo) / (self.hi - self.lo)
        c = self.s.choose((p, 1.0 - p), self.kind)
        if c == 0:
            self.hi = t
            return True
        self.lo = t
        return False

    def __lt__(self, t):
        return self._lt(t)

    def __le__(self, t):
        return self._lt(t)

    def __gt__(self, t):
        return not self._lt(t)

    def __ge__(self, t):
        return not self._lt(t)

    def log(self):
        self.kind = "slice"
        return LazyLogU(self, 0.0)


class LazyLogU:
    """log(u) + c for a LazyU u."""

    def __init__(self, u, c):
        self.u, self.c = u, c

    def __add__(self, x):
        return LazyLogU(self.u, self.c + float(x))

    __radd__ = __add__

    def __sub__(self, x):
        return LazyLogU(self.u, self.c - float(x))

    def _thr(self, x):
        d = float(x) - self.c
        if math.isnan(d):
            return math.nan
        return math.exp(d) if d < 700 else math.inf

    # value <= x  <=>  u <= exp(x - c)
    def __le__(self, x):
        return self.u._lt(self._thr(x))

    def __lt__(self, x):
        return self.u._lt(self._thr(x))

    def __gt__(self, x):
        t = self._thr(x)
        if math.isnan(t):
            return False
        return not self.u._lt(t)

    def __ge__(self, x):
        t = self._thr(x)
        if math.isnan(t):
            return False
        return not self.u._lt(t)

    def __format__(self, spec):
        return f"log(u)+{self.c}"


class ScriptRNG:
    def __init__(self, script):
        self.s = script

    def uniform(self):
        return LazyU(self.s)

    def integers(self, lo, hi=None):
        if hi is None:
            lo, hi = 0, lo
        n = int(hi) - int(lo)
        return int(lo) + self.s.choose(tuple([1.0 / n] * n), "integers")


def enumerate_paths(run, path_cap=200_000):
    """Depth-first enumeration of the decision tree of run(rng).

    Yields (probability, result, n_decisions).  Raises PathCap when more than
    path_cap paths exist.
    """
    stack = [[]]
    n = 0
    while stack:
        prefix = stack.pop()
        s = Script(prefix)
        res = run(ScriptRNG(s))
        prob = 1.0
        for i, (c, probs) in enumerate(s.trace):
            prob *= probs[c]
            if i >= len(prefix):
                for alt in range(len(probs)):
                    if alt != c and probs[alt] > 0:
                        stack.append([t[0] for t in s.trace[:i]] + [alt])
        n += 1
        if n > path_cap:
            raise PathCap
        yield prob, res, s


class CountingIntegrator:
    """Transparent proxy which records the outputs of every successful step."""

    def __init__(self, inner):
        self.__dict__["_inner"] = inner
        self.__dict__["outputs"] = []
        self.__dict__["n_calls"] = 0
        self.__dict__["errors"] = []

    def __getattr__(self, name):
        return getattr(self.__dict__["_inner"], name)

    def __setattr__(self, name, value):
        setattr(self.__dict__["_inner"], name, value)

    def reset(self):
        self.__dict__["outputs"] = []
        self.__dict__["n_calls"] = 0
        self.__dict__["errors"] = []

    def step(self, state):
        self.__dict__["n_calls"] += 1
        try:
            out = self._inner.step(state)
        except Exception as e:
            self.__dict__["errors"].append(type(e).__name__)
            raise
        self.__dict__["outputs"].append(out)
        return out


class Orbit:
    """z_k = Psi^k(z_0), k in [-K, K], built with the real integrator."""

    def __init__(self, system, integrator, state0, K):
        self.system = system
        self.K = K
        self.states = {0: state0}
        s = state0.copy()
        s.dir = 1
        self.states[0] = s
        cur = s
        for k in range(1, K + 1):
            cur = integrator.step(cur)
            self.states[k] = cur
        cur = s.copy()
        cur.dir = -1
        for k in range(1, K + 1):
            cur = integrator.step(cur)
            self.states[-k] = cur
        self.pts = {k: np.concatenate([np.ravel(v.pos), np.ravel(v.mom)]) for k, v in self.states.items()}
        self.h = {k: float(system.h(v)) for k, v in self.states.items()}
        ks = sorted(self.pts)
        self._ks = ks
        self._arr = np.array([self.pts[k] for k in ks])

    def min_separation(self):
        a = self._arr
        d = np.abs(a[:, None, :] - a[None, :, :]).max(axis=2)
        d[np.diag_indices(len(a))] = np.inf
        return float(d.min())

    def finite(self):
        return bool(np.all(np.isfinite(self._arr)) and all(math.isfinite(x) for x in self.h.values()))

    def index_of(self, state, tol):
        z = np.concatenate([np.ravel(state.pos), np.ravel(state.mom)])
        d = np.abs(self._arr - z).max(axis=1)
        i = int(np.argmin(d))
        scale = 1.0 + float(np.abs(z).max())
        if not d[i] <= tol * scale:
            return None, float(d[i])
        return self._ks[i], float(d[i])


class BoundaryIntegrator:
    """Real integrator whose steps fail (with a real mici IntegratorError subclass) whenever
    the step starts or ends beyond orbit index k_b.  The failure is a deterministic,
    direction-symmetric function of the unordered pair of states {from, to}, so every
    trajectory-based transition must still leave exp(-H) exactly invariant: a trajectory
    and its reverse fail at the same places."""

    def __init__(self, inner, orbit, k_b, error_cls, tol):
        d = self.__dict__
        d["_inner"], d["_orbit"], d["_kb"], d["_err"], d["_tol"] = inner, orbit, k_b, error_cls, tol

    def __getattr__(self, name):
        return getattr(self.__dict__["_inner"], name)

    def __setattr__(self, name, value):
        setattr(self.__dict__["_inner"], name, value)

    def step(self, state):
        out = self._inner.step(state)
        i, _ = self._orbit.index_of(state, self._tol)
        j, _ = self._orbit.index_of(out, self._tol)
        if i is None or j is None or max(i, j) > self._kb:
            raise self._err("injected: step crosses the orbit boundary")
        return out
