"""E3 — trajectory/chain fault simulator.

Instrumentation is attached at constructor seams only:
* ``zoo.Hooked`` model functions report every call to ``models.hooks`` (fault injection by
  call index or by position region, call catalogue for enumeration);
* ``MonitoredSolver`` wraps the real fixed-point / projection solvers;
* ``MonitoredIntegrator`` wraps the real integrator (transitions only use ``.step`` and
  ``.step_size``).
Oracle evaluations made by the harness run with the injector paused and on fresh
states, so they neither consume call indices nor touch caches of the system under test.
"""

from __future__ import annotations

import copy
import math

import numpy as np

from models import hooks, zoo
from simkit.core import HarnessError, violation

VALUE_KINDS = ("nan", "+inf", "-inf", "nan_entry", "inf_entry")
EXC_KINDS = ("ValueError", "np_LinAlgError", "mici_LinAlgError")


class Ctx:
    """Per-run fault-injection and monitoring context (single threaded)."""

    def __init__(self, faults=(), region=None, solver_fail_at=None):
        self.calls = 0  # model-function calls seen (not counting paused ones)
        self.catalogue = []  # (index, fn, in_solve, in_step, in_transition)
        self.faults = {f["at"]: f for f in faults if "at" in f}
        self.region = region  # {"fn":..., "axis":..., "thr":..., "side":..., "kind":...}
        self.solver_fail_at = set(solver_fail_at or ())
        self.in_solve = 0
        self.in_step = 0
        self.in_transition = False
        self.paused = 0
        self.fired = []  # (call index, fn, kind, in_solve)
        self.solves = 0
        self.violations = []
        self.counters = {}
        self.current_pos = None
        self.proj_log = []  # (prev_pos, returned pos, time_step) of every projection solve that returned

    def count(self, k, n=1):
        self.counters[k] = self.counters.get(k, 0) + n

    # ---- hooks handler ----
    def handler(self, name, q):
        if self.paused:
            return None
        self.calls += 1
        idx = self.calls
        self.catalogue.append((idx, name, self.in_solve > 0, self.in_step > 0, self.in_transition))
        f = self.faults.get(idx)
        if f is not None and f.get("fn", name) in (name, "*"):
            if f["kind"] in EXC_KINDS and self.in_solve == 0:
                # control flow changed (earlier fault): this call is no longer inside a solve
                self.count("skipped_exception_outside_solve")
            else:
                return self._fire(idx, name, f["kind"])
        r = self.region
        if r is not None and r["fn"] in (name, "*") and q is not None:
            x = float(np.ravel(q)[r["axis"] % np.size(q)])
            if (x > r["thr"]) == (r["side"] > 0):
                if r["kind"] in EXC_KINDS and self.in_solve == 0:
                    return None
                return self._fire(idx, name, r["kind"])
        return None

    def _fire(self, idx, name, kind):
        self.fired.append((idx, name, kind, self.in_solve > 0))
        self.count("fired:" + kind)
        if kind == "ValueError":
            raise ValueError("injected fault")
        if kind == "np_LinAlgError":
            raise np.linalg.LinAlgError("injected fault")
        if kind == "mici_LinAlgError":
            import mici

            raise mici.errors.LinAlgError("injected fault")
        return lambda fn, q: corrupt(fn(q), kind)


def corrupt(val, kind):
    """Value fault applied to the real return value (keeps its structure)."""
    if isinstance(val, tuple):
        return (corrupt(val[0], kind), *val[1:])
    if callable(val):
        return lambda *a, _v=val, **k: corrupt(_v(*a, **k), kind)
    arr = np.array(val, dtype=float, copy=True)
    if kind == "nan":
        arr[...] = np.nan
    elif kind == "+inf":
        arr[...] = np.inf
    elif kind == "-inf":
        arr[...] = -np.inf
    elif kind == "nan_entry":
        arr.flat[0] = np.nan
    elif kind == "inf_entry":
        arr.flat[-1] = np.inf
    if arr.ndim == 0:
        return float(arr)
    return arr


class paused:
    def __init__(self, ctx):
        self.ctx = ctx

    def __enter__(self):
        self.ctx.paused += 1

    def __exit__(self, *a):
        self.ctx.paused -= 1
        return False


# --------------------------------------------------------------------------------------
# solver monitors


def bytes_of(state):
    return tuple(
        (k, None if v is None else (np.asarray(v).tobytes() if isinstance(v, np.ndarray) else repr(v)))
        for k, v in sorted(state._variables.items())  # noqa: SLF001
    )


class MonitoredFixedPointSolver:
    def __init__(self, real, ctx, name, check_residual=True):
        self.real, self.ctx, self.name, self.check_residual = real, ctx, name, check_residual

    def __call__(self, func, x0, **kwargs):
        import mici

        ctx = self.ctx
        ctx.solves += 1
        ctx.count("fp_solves")
        if ctx.solves in ctx.solver_fail_at:
            ctx.count("fired:forced_nonconvergence")
            ctx.fired.append((ctx.calls, "solver", "forced_nonconvergence", True))
            raise mici.errors.ConvergenceError("injected non-convergence")
        ctx.in_solve += 1
        try:
            x = self.real(func, x0, **kwargs)
        except mici.errors.ConvergenceError:
            ctx.count("fp_convergence_errors")
            raise
        except BaseException as e:
            if isinstance(e, HarnessError):
                raise
            ctx.violations.append(
                violation("solver-foreign-exception", f"solver-foreign-exception:{self.name}:{type(e).__name__}",
                          f"fixed point solver {self.name} let {type(e).__name__} escape: {e}")
            )
            raise
        finally:
            ctx.in_solve -= 1
        ctx.count("fp_returns")
        tol = kwargs.get("convergence_tol", 1e-9)
        if not np.all(np.isfinite(x)):
            ctx.violations.append(violation("solver-unconverged", f"solver-unconverged:{self.name}:non-finite", f"{self.name} returned a non-finite fixed point"))
        elif self.check_residual and not ctx.faults:
            # independent residual (injector paused): |f(x) - x| must be small for a converged x
            with paused(ctx):
                try:
                    fx = func(np.array(x, copy=True))
                    res = float(np.max(np.abs(fx - x)))
                except Exception:  # noqa: BLE001
                    res = None
            if res is not None and not (res < 1e3 * tol + 1e-12):
                ctx.violations.append(
                    violation("solver-unconverged", f"solver-unconverged:{self.name}",
                              f"{self.name} returned x with |f(x)-x| = {res:.3e} for convergence_tol {tol}")
                )
        return x


class MonitoredProjectionSolver:
    def __init__(self, real, ctx, name):
        self.real, self.ctx, self.name = real, ctx, name
        self._fd_cache = {}

    def _flow_derivative(self, system, q, dt):
        """(d pos_out / d mom_in, d mom_out / d mom_in) of system.h2_flow(., dt) at position q, by differences of
        the real flow (exact for the affine flows of mici's constrained systems; affinity is probed once per dt
        and the matrices are re-measured at every call when the probe fails)."""
        from mici.states import ChainState

        def flow(pos, mom):
            st = ChainState(pos=np.array(pos, dtype=float, copy=True), mom=np.array(mom, dtype=float, copy=True), dir=1)
            system.h2_flow(st, dt)
            return np.array(st.pos, dtype=float), np.array(st.mom, dtype=float)

        def measure(pos, h=1.0):
            d = np.size(pos)
            p0, m0 = flow(pos, np.zeros(d))
            A, B = np.zeros((d, d)), np.zeros((d, d))
            for i in range(d):
                e = np.zeros(d)
                e[i] = h
                p1, m1 = flow(pos, e)
                A[:, i], B[:, i] = (p1 - p0) / h, (m1 - m0) / h
            return A, B

        key = (id(system), float(dt), np.size(q))
        hit = self._fd_cache.get(key)
        if hit is not None and hit[0]:
            return hit[1], hit[2]
        A, B = measure(q)
        if hit is None:
            A2, B2 = measure(np.asarray(q) * 0.5 + 0.37, h=3.0)
            affine = bool(np.allclose(A, A2, rtol=1e-9, atol=1e-12) and np.allclose(B, B2, rtol=1e-9, atol=1e-12))
            self._fd_cache[key] = (affine, A, B)
            self.ctx.count("flow_derivative_probes")
        return A, B

    def __call__(self, state, state_prev, time_step, system, **kwargs):
        import mici
        from mici.states import ChainState

        ctx = self.ctx
        ctx.solves += 1
        ctx.count("proj_solves")
        if ctx.solves in ctx.solver_fail_at:
            ctx.count("fired:forced_nonconvergence")
            ctx.fired.append((ctx.calls, "solver", "forced_nonconvergence", True))
            raise mici.errors.ConvergenceError("injected non-convergence")
        pos0, mom0 = np.array(state.pos, copy=True), np.array(state.mom, copy=True)
        prev_pos = np.array(state_prev.pos, copy=True)
        ctx.in_solve += 1
        try:
            out = self.real(state, state_prev, time_step, system, **kwargs)
        except mici.errors.ConvergenceError:
            ctx.count("proj_convergence_errors")
            raise
        except BaseException as e:
            if isinstance(e, HarnessError):
                raise
            ctx.violations.append(
                violation("solver-foreign-exception", f"solver-foreign-exception:{self.name}:{type(e).__name__}",
                          f"projection solver {self.name} let {type(e).__name__} escape: {e}")
            )
            raise
        finally:
            ctx.in_solve -= 1
        ctx.count("proj_returns")
        # log of converged projection solves (for the in-step reversibility audit of the monitored integrator)
        ctx.proj_log.append((prev_pos, np.array(state.pos, copy=True), float(time_step)))
        tol = kwargs.get("constraint_tol", 1e-9)
        with paused(ctx):
            fresh = ChainState(pos=np.array(state.pos, copy=True), mom=np.array(state.mom, copy=True), dir=1)
            try:
                c = np.asarray(system.constr(fresh), dtype=float)
                res = float(np.max(np.abs(c)))
            except Exception:  # noqa: BLE001
                res = math.nan
            if True:
                if not (res < tol):
                    ctx.violations.append(
                        violation("solver-unconverged", f"solver-unconverged:{self.name}",
                                  f"{self.name} returned with |c(q)| = {res!r} >= constraint_tol {tol}")
                    )
            # Lagrange-multiplier form of the correction
            in_range = (
                np.all(np.isfinite(state.pos)) and np.all(np.isfinite(state.mom))
                and max(np.max(np.abs(pos0)), np.max(np.abs(mom0)), np.max(np.abs(prev_pos))) < 1e8
            )
            if not in_range:
                ctx.count("lagrange_out_of_range")
            if in_range:
                try:
                    prevs = ChainState(pos=prev_pos, mom=np.zeros_like(prev_pos), dir=1)
                    Jp = np.asarray(system.jacob_constr(prevs), dtype=float)
                    # derivative of the h2 flow w.r.t. the initial momentum, measured on the flow itself (not
                    # taken from system.dh2_flow_dmom, which is the code under test)
                    A, B = self._flow_derivative(system, prev_pos, time_step)
                    AJ = np.asarray(A @ Jp.T)
                    BJ = np.asarray(B @ Jp.T)
                    dpos = pos0 - np.asarray(state.pos)
                    dmom = mom0 - np.asarray(state.mom)
                    lam, *_ = np.linalg.lstsq(AJ, dpos, rcond=None)
                    fit = float(np.max(np.abs(AJ @ lam - dpos)))
                    scale = 1e-7 * (1.0 + float(np.max(np.abs(dpos)))) + 1e-12 + 1e-12 * float(np.max(np.abs(pos0)))
                    momfit = float(np.max(np.abs(BJ @ lam - dmom)))
                    mscale = (1e-7 * (1.0 + float(np.max(np.abs(dmom)))) + 1e-12 * float(np.max(np.abs(mom0)))) * max(1.0, float(np.linalg.cond(AJ))) + 1e-12
                    ctx.count("lagrange_checks")
                    if fit > scale or momfit > mscale:
                        ctx.violations.append(
                            violation("lagrange-form", f"lagrange-form:{self.name}",
                                      f"{self.name}: position correction not in range(dh2_flow_pos_dmom J_prev^T) (fit {fit:.2e}) or momentum correction does not match the same multipliers ({momfit:.2e})")
                        )
                except (ValueError, np.linalg.LinAlgError, mici.errors.Error):
                    pass
        return out


# --------------------------------------------------------------------------------------
# integrator monitor


def sensitivity(integ, out, z_rev, n=1):
    """Expansion factor of n reverse steps around `out` from one deterministic perturbation."""
    import mici

    z_out = np.concatenate([np.ravel(out.pos), np.ravel(out.mom)])
    delta = 1e-7 * (1.0 + np.abs(z_out)) * np.where(np.arange(z_out.size) % 2 == 0, 1.0, -1.0)
    pert = out.copy()
    pert.dir = -out.dir
    d = np.size(out.pos)
    system = getattr(integ, "system", None)
    if system is not None and hasattr(system, "constr"):
        # constrained systems: stay on the manifold and in the cotangent space - perturb the momentum only,
        # along its projection onto the cotangent space at the unchanged position
        try:
            dm = np.asarray(system.project_onto_cotangent_space(delta[d:].reshape(np.shape(out.mom)), out.copy()), dtype=float)
        except (mici.errors.Error, ValueError, np.linalg.LinAlgError):
            return None
        if not np.all(np.isfinite(dm)) or float(np.max(np.abs(dm))) < 1e-3 * float(np.max(np.abs(delta[d:]))):
            return None
        delta = np.concatenate([np.zeros(d), np.ravel(dm)])
        pert.mom = np.asarray(out.mom) + dm
    else:
        pert.pos = np.asarray(out.pos) + delta[:d].reshape(np.shape(out.pos))
        pert.mom = np.asarray(out.mom) + delta[d:].reshape(np.shape(out.mom))
    try:
        cur = pert
        for _ in range(n):
            cur = integ.step(cur)
    except (mici.errors.Error, ValueError, np.linalg.LinAlgError):
        return None
    z2 = np.concatenate([np.ravel(cur.pos), np.ravel(cur.mom)])
    if not np.all(np.isfinite(z2)):
        return None
    return float(np.max(np.abs(z2 - z_rev)) / np.max(np.abs(delta)))


class MonitoredIntegrator:
    def __init__(self, real, ctx, *, system, reversal=None, constrained=False, constraint_tol=1e-9, center=None):
        d = self.__dict__
        d["_real"], d["ctx"], d["system"] = real, ctx, system
        d["reversal"] = reversal  # None or {"tol":..., "explicit": bool}
        d["center"] = None if center is None else np.array(center, dtype=float)  # translation of the model (zoo Quartic.center)
        d["constrained"] = constrained
        d["constrained_system"] = hasattr(system, "constr")
        d["constraint_tol"] = constraint_tol
        d["outputs"] = []  # successful step outputs of the current transition
        d["errors"] = []  # error class names raised in the current transition

    def __getattr__(self, name):
        return getattr(self.__dict__["_real"], name)

    def __setattr__(self, name, value):
        setattr(self.__dict__["_real"], name, value)

    def begin_transition(self):
        self.__dict__["outputs"] = []
        self.__dict__["errors"] = []

    def step(self, state):
        import mici

        ctx = self.ctx
        before = bytes_of(state)
        ctx.in_step += 1
        ctx.count("steps")
        n_proj0 = len(ctx.proj_log)
        n_solver_err0 = ctx.counters.get("fp_convergence_errors", 0) + ctx.counters.get("proj_convergence_errors", 0)
        try:
            out = self._real.step(state)
        except mici.errors.IntegratorError as e:
            self.errors.append(type(e).__name__)
            ctx.count("step_errors:" + type(e).__name__)
            if bytes_of(state) != before:
                ctx.violations.append(violation("input-modified", "input-modified:on-error", f"integrator step raised {type(e).__name__} and modified its input state"))
            raise
        except BaseException as e:
            if isinstance(e, HarnessError):
                raise
            self.errors.append("foreign:" + type(e).__name__)
            if bytes_of(state) != before and not isinstance(e, KeyboardInterrupt):
                ctx.violations.append(violation("input-modified", "input-modified:on-error", f"integrator step raised {type(e).__name__} and modified its input state"))
            raise
        finally:
            ctx.in_step -= 1
        if bytes_of(state) != before:
            ctx.violations.append(violation("input-modified", "input-modified", "integrator step modified its input state"))
        if out is state:
            ctx.violations.append(violation("input-modified", "input-returned", "integrator step returned its input object"))
        self.outputs.append(out)
        ctx.count("steps_ok")
        self._audit_in_step_reversibility(ctx.proj_log[n_proj0:])
        del ctx.proj_log[:]
        n_solver_err = ctx.counters.get("fp_convergence_errors", 0) + ctx.counters.get("proj_convergence_errors", 0) - n_solver_err0
        if n_solver_err:
            # no integrator of mici retries or falls back: a solve that failed inside a step (forward solve or the
            # reverse solve of a reversibility check) means the step cannot be vouched for and must not return
            ctx.violations.append(violation("solver-failure-swallowed", f"solver-failure-swallowed:{type(self._real).__name__}",
                                            f"{type(self._real).__name__} returned a step although {n_solver_err} iterative solve(s) inside it raised ConvergenceError"))
        if self.constrained:
            self._check_manifold(out, "step")
        if self.reversal is not None:
            self._check_reversal(state, out)
        return out

    # ---- C12 / C02: a constrained step that returns must have passed every one of its reversibility checks ----
    def _audit_in_step_reversibility(self, solves):
        """The constrained integrator follows each forward retraction (time step s, from q_prev to q) by a reverse
        one (time step -s, from q) and promises NonReversibleStepError when that does not come back to q_prev within
        reverse_check_tol.  Audited from the solver calls alone: a returned step must not contain a forward/reverse pair
        that misses by more than the tolerance."""
        tol = getattr(self._real, "reverse_check_tol", None)
        norm = getattr(self._real, "reverse_check_norm", None)
        if tol is None or norm is None or not solves:
            return
        for (p0, q0, s0), (p1, q1, s1) in zip(solves[:-1], solves[1:]):
            if s1 == -s0 and np.array_equal(p1, q0):
                d = float(norm(q1 - p0))
                self.ctx.count("in_step_reversal_pairs")
                if d > tol and np.isfinite(d):
                    self.ctx.violations.append(violation(
                        "reversibility-failure-not-raised", f"reversibility-failure-not-raised:{type(self._real).__name__}",
                        f"{type(self._real).__name__} returned a step although a forward/reverse retraction pair inside it misses its start by {d:.3e} > reverse_check_tol {tol:.1e}"))
                    return

    # ---- C04 invariant ----
    def _check_manifold(self, st, where):
        from mici.states import ChainState

        ctx = self.ctx
        if not (np.all(np.isfinite(st.pos)) and np.all(np.isfinite(st.mom))):
            ctx.count("manifold_nonfinite")
            return
        with paused(ctx):
            fresh = ChainState(pos=np.array(st.pos, copy=True), mom=np.array(st.mom, copy=True), dir=1)
            try:
                c = float(np.max(np.abs(self.system.constr(fresh))))
                J = np.asarray(self.system.jacob_constr(fresh), dtype=float)
                v = np.asarray(self.system.metric.inv @ fresh.mom)
                cot = float(np.max(np.abs(J @ v)))
            except Exception:  # noqa: BLE001
                ctx.count("manifold_eval_failed")
                return
        ctx.count("manifold_checks")
        lim_c = 10 * self.constraint_tol
        lim_t = 1e-8 * (1.0 + max(float(np.max(np.abs(st.mom))), float(np.max(np.abs(v))))) * max(1.0, float(np.max(np.abs(J))))
        if not (c < lim_c):
            ctx.violations.append(violation("off-manifold", f"off-manifold:{where}", f"after a successful {where}: |c(q)| = {c:.3e} >= {lim_c:.1e}"))
        if not (cot < lim_t):
            ctx.violations.append(violation("off-cotangent", f"off-cotangent:{where}", f"after a successful {where}: |J M^-1 p| = {cot:.3e} >= {lim_t:.1e}"))
            return
        # scale-free form: cosine, in the metric's own inner product, of the angle between the velocity and
        # each constraint normal; the allowance grows with the conditioning of the (normalised) Gram matrix
        with paused(ctx):
            try:
                G = J @ np.asarray(self.system.metric.inv @ J.T)
                d = np.sqrt(np.diag(G))
                ke = float(fresh.mom @ v)
                if not (np.all(d > 0) and ke > 0 and np.all(np.isfinite(G))):
                    return
                cos = float(np.max(np.abs(J @ v) / d)) / math.sqrt(ke)
                cond = float(np.linalg.cond(G / np.outer(d, d)))
            except Exception:  # noqa: BLE001
                return
        if not np.isfinite(cond) or cond > 1e7:
            ctx.count("cotangent_relative_skipped_illconditioned")
            return
        ctx.count("cotangent_relative_checks")
        lim_r = 1e-10 * max(10.0, cond)
        ctx.counters["cotangent_relative_worst_e18"] = max(ctx.counters.get("cotangent_relative_worst_e18", 0), int(1e18 * cos / lim_r * 1e-0))
        if not (cos < lim_r):
            ctx.violations.append(violation("off-cotangent", f"off-cotangent:{where}", f"after a successful {where}: velocity has cosine {cos:.3e} >= {lim_r:.1e} with a constraint normal (metric inner product; Gram condition {cond:.1e})"))

    # ---- C02 invariant ----
    def _check_reversal(self, inp, out):
        import mici

        ctx = self.ctx
        z_in = np.concatenate([np.ravel(inp.pos), np.ravel(inp.mom)])
        z_out = np.concatenate([np.ravel(out.pos), np.ravel(out.mom)])
        cz = translation_vector(self.center, z_in.size)
        if not (np.all(np.isfinite(z_in)) and np.all(np.isfinite(z_out))) or max(np.abs(z_in - cz).max(), np.abs(z_out - cz).max()) > 1e8:
            ctx.count("reversal_out_of_range")
            return
        back = out.copy()
        back.dir = -out.dir
        try:
            rev = self._real.step(back)
        except mici.errors.IntegratorError:
            ctx.count("reversal_inconclusive")
            return
        except Exception as e:  # noqa: BLE001
            if ctx.region is None and not ctx.faults:
                ctx.violations.append(violation("reversal-foreign-exception", f"reversal-foreign-exception:{type(e).__name__}", f"reverse step raised {type(e).__name__}: {e}"))
            return
        z_rev = np.concatenate([np.ravel(rev.pos), np.ravel(rev.mom)])
        err = float(np.max(np.abs(z_rev - z_in)))
        ctx.count("reversal_checks")
        # solver tolerances are absolute, rounding is relative to the largest coordinate: a translated model
        # (centre c) gets tol * (1 + |z - c|) + rounding allowance for |c|
        lim = self.reversal["tol"] * (1.0 + float(max(np.max(np.abs(z_in - cz)), np.max(np.abs(z_out - cz))))) + 1e-11 * float(np.max(np.abs(cz)))
        if self.center is not None:
            ctx.count("reversal_checks_translated")
        if not (err <= lim):
            # rounding is amplified by the local expansion of the (reverse) map outside the
            # stability region: estimate it with one perturbed reverse step
            L = sensitivity(self._real, out, z_rev)
            if L is None:
                ctx.count("reversal_inconclusive")
                return
            ctx.count("reversal_amplified")
            lim *= max(1.0, L)
        ctx.counters["max_reversal_err_e18"] = max(ctx.counters.get("max_reversal_err_e18", 0), int(min(err, 1.0) * 1e18))
        if not (err <= lim):
            ctx.violations.append(violation("not-reversible", f"not-reversible:{type(self._real).__name__}",
                                            f"{type(self._real).__name__}: step, flip, step returns to a state {err:.3e} away from the start (limit {lim:.1e})"))


def translation_vector(center, size):
    cz = np.zeros(size)
    if center is not None:
        cz[: len(center)] = center
    return cz


# --------------------------------------------------------------------------------------
# building an instrumented chain


def build(scn, ctx):
    """Returns (system, integrator(monitored), transition, momentum_transition)."""
    import mici

    system, model = zoo.build_system(scn["system"], hooked=True)
    ispec = dict(scn["integrator"])
    integ = zoo.build_integrator(system, ispec)
    # wrap solvers
    if hasattr(integ, "fixed_point_solver"):
        integ.fixed_point_solver = MonitoredFixedPointSolver(integ.fixed_point_solver, ctx, ispec.get("solver", "direct"))
    if hasattr(integ, "projection_solver"):
        integ.projection_solver = MonitoredProjectionSolver(integ.projection_solver, ctx, ispec.get("solver", "newton"))
    explicit = ispec["type"] in ("leapfrog", "bcss2", "bcss3", "bcss4", "symcomp")
    constrained = ispec["type"] == "constrained"
    rev = None
    if scn.get("check_reversal"):
        rct = ispec.get("reverse_check_tol", 2e-8)
        rev = {"tol": 1e-10 if explicit else 100 * rct}
    ctol = ispec.get("solver_kwargs", {}).get("constraint_tol", 1e-9)
    mon = MonitoredIntegrator(integ, ctx, system=system, reversal=rev, constrained=constrained and scn.get("check_manifold", False), constraint_tol=ctol,
                              center=scn["system"].get("target", {}).get("center"))
    ts = scn["transition"]
    T = mici.transitions
    if ts["type"] == "static":
        trans = T.MetropolisStaticIntegrationTransition(system, mon, n_step=ts["n_step"])
    elif ts["type"] == "random":
        trans = T.MetropolisRandomIntegrationTransition(system, mon, n_step_range=tuple(ts["n_step_range"]))
    else:
        cls = T.MultinomialDynamicIntegrationTransition if ts["type"] == "multinomial" else T.SliceDynamicIntegrationTransition
        crit = {"euclidean": T.euclidean_no_u_turn_criterion, "riemannian": T.riemannian_no_u_turn_criterion}[ts.get("criterion", "riemannian")]
        trans = cls(system, mon, max_tree_depth=ts["max_tree_depth"], max_delta_h=ts.get("max_delta_h", 1000.0),
                    termination_criterion=crit, do_extra_subtree_checks=ts.get("do_extra_subtree_checks", True))
    coeff = scn.get("mom_resample_coeff", 1.0)
    momt = T.CorrelatedMomentumTransition(system, coeff) if coeff != 1.0 else T.IndependentMomentumTransition(system)
    return system, mon, trans, momt


def states_equal(a, b):
    return np.array_equal(a.pos, b.pos, equal_nan=True) and np.array_equal(a.mom, b.mom, equal_nan=True)


def run_chain(scn, *, faults=(), region=None, solver_fail_at=None, n_iter=None, judge_c12=True, extra_clean_iters=0):
    """Run a short chain with monitors; returns ctx (violations, counters, catalogue) and outcome."""
    import mici
    from mici.states import ChainState

    ctx = Ctx(faults, region, solver_fail_at)
    hooks.install(ctx.handler)
    outcome = {"escaped": None, "iters": 0, "accepted_moves": 0, "flags": {}, "clean_success_after_faults": None, "poisoned": None}
    try:
        system, mon, trans, momt = build(scn, ctx)
        rng = np.random.default_rng(scn["chain_seed"])
        import random as _r

        r = _r.Random(scn["chain_seed"])
        with paused(ctx):
            pos = zoo.start_position(scn["system"], r, variant=scn.get("start_variant", 0))
            state = ChainState(pos=np.array(pos, dtype=float), mom=None, dir=1)
        n_iter = n_iter or scn["n_iter"]
        step_sizes = scn.get("step_sizes")
        last_fault_call = max([f["at"] for f in faults if "at" in f], default=0)
        total = n_iter + extra_clean_iters
        clean_start, clean_seq = None, []
        for it in range(total):
            if it == n_iter and extra_clean_iters:
                # faults stop here; remember the chain state's variables and the generator so that the same clean
                # iterations can be repeated from a state object that carries no cache (see continuation below)
                ctx.faults, ctx.solver_fail_at = {}, set()
                if state.mom is not None:
                    clean_start = (np.array(state.pos, copy=True), np.array(state.mom, copy=True), state.dir,
                                   copy.deepcopy(rng.bit_generator.state), len(ctx.violations))
            if step_sizes:
                mon.step_size = step_sizes[it % len(step_sizes)]
            # momentum transition (its own failures are outside C12's statement; contained => fine)
            try:
                state, _ = momt.sample(state, rng)
            except (mici.errors.Error, ValueError, np.linalg.LinAlgError) as e:
                outcome["momentum_error"] = type(e).__name__
                ctx.count("momentum_errors")
                break
            if mon.constrained and state.mom is not None:
                mon._check_manifold(state, "momentum draw")  # noqa: SLF001
            before = ChainState(pos=np.array(state.pos, copy=True), mom=np.array(state.mom, copy=True), dir=state.dir)
            before_finite = bool(np.all(np.isfinite(before.pos)) and np.all(np.isfinite(before.mom)))
            mon.begin_transition()
            ctx.in_transition = True
            fired_before = len(ctx.fired)
            try:
                new_state, stats = trans.sample(state, rng)
            except BaseException as e:  # noqa: BLE001
                ctx.in_transition = False
                if isinstance(e, HarnessError):
                    raise  # the batch runner's budget, not an exception of the code under test
                import traceback

                tb = traceback.extract_tb(e.__traceback__)
                frames = [f for f in tb if "/mici/" in f.filename]
                site = "?"
                if frames:
                    f = frames[-1]
                    # innermost system method and innermost integrator/solver (else transition) method on the way
                    # down: findings are identified by this call path, so a new path is a new violation
                    inner = frames[:-1]
                    sysm = next((g for g in reversed(inner) if g.filename.endswith("systems.py")), None)
                    drv = next((g for g in reversed(inner) if g.filename.endswith(("integrators.py", "solvers.py"))), None)
                    if drv is None:
                        drv = next((g for g in reversed(inner) if g.filename.endswith("transitions.py")), None)
                    site = f"{f.filename.rsplit('/', 1)[-1]}:{f.name}" + (f"<-{sysm.name}" if sysm else "") + (f"<-{drv.name}" if drv else "")
                outcome["escaped"] = (type(e).__module__.split(".")[0] + "." + type(e).__name__, site, str(e)[:200])
                break
            finally:
                ctx.in_transition = False
            outcome["iters"] += 1
            faulted = len(ctx.fired) > fired_before or region is not None
            if judge_c12 and before_finite:
                judge_transition(ctx, mon, before, before_finite, new_state, stats, scn, state)
            elif not before_finite:
                ctx.count("unjudged_nonfinite_input")
            for k in ("convergence_error", "non_reversible_step", "diverging"):
                if stats.get(k):
                    outcome["flags"][k] = outcome["flags"].get(k, 0) + 1
            if not states_equal(before, new_state):
                outcome["accepted_moves"] += 1
            if it >= n_iter:  # clean iterations after the faults stopped
                clean_seq.append((np.array(new_state.pos, copy=True), np.array(new_state.mom, copy=True),
                                  tuple(bool(stats.get(k)) for k in ("convergence_error", "non_reversible_step", "diverging"))))
                ok = not any(stats.get(k) for k in ("convergence_error", "non_reversible_step", "diverging")) and stats["n_step"] > 0
                if ok:
                    outcome["clean_success_after_faults"] = True
                elif outcome["clean_success_after_faults"] is None:
                    outcome["clean_success_after_faults"] = False
            state = new_state
        if clean_start is not None and not outcome["escaped"] and len(clean_seq) == extra_clean_iters:
            # the same clean iterations from a fresh state object holding the same variables: a chain state that
            # faults left in a valid condition behaves exactly like it (nothing poisoned survives in its cache)
            pos0, mom0, dir0, rng_state, n_viol = clean_start
            rng2 = np.random.default_rng(0)
            rng2.bit_generator.state = rng_state
            st2 = ChainState(pos=pos0, mom=mom0, dir=dir0)
            seq2, failed = [], None
            for it in range(n_iter, total):
                if step_sizes:
                    mon.step_size = step_sizes[it % len(step_sizes)]
                try:
                    st2, _ = momt.sample(st2, rng2)
                    mon.begin_transition()
                    st2, stats2 = trans.sample(st2, rng2)
                except BaseException as e:  # noqa: BLE001
                    if isinstance(e, HarnessError):
                        raise
                    failed = type(e).__name__
                    break
                seq2.append((np.array(st2.pos, copy=True), np.array(st2.mom, copy=True),
                             tuple(bool(stats2.get(k)) for k in ("convergence_error", "non_reversible_step", "diverging"))))
            ctx.count("clean_continuations_compared")
            if failed is not None:
                outcome["poisoned"] = f"the fresh-state continuation raised {failed} while the chain's own continuation did not"
            else:
                for k, (a, b) in enumerate(zip(clean_seq, seq2)):
                    if not (np.array_equal(a[0], b[0], equal_nan=True) and np.array_equal(a[1], b[1], equal_nan=True) and a[2] == b[2]):
                        outcome["poisoned"] = (f"clean iteration {k + 1} after the faults: the chain's own state object gives pos {a[0].tolist()} flags {a[2]}, "
                                               f"a fresh state with the same variables gives pos {b[0].tolist()} flags {b[2]}")
                        break
    finally:
        hooks.clear()
    return ctx, outcome


def judge_transition(ctx, mon, before, before_finite, new_state, stats, scn, input_state=None):
    """C12 items 2-4 for one returned transition."""
    metrop = scn["transition"]["type"] in ("static", "random")
    if input_state is not None:
        with paused(ctx):
            try:
                h0 = float(mon.system.h(input_state)) if new_state is input_state or True else None
            except Exception:  # noqa: BLE001
                h0 = None
        if h0 is not None and not math.isfinite(h0) and ctx.fired:
            # the fault hit the energy of the state the chain already sits in (value cached by the transition):
            # a model that is NaN/inf at the current state is outside the property
            ctx.count("unjudged_faulted_input_energy")
            return
    pos_ok = bool(np.all(np.isfinite(new_state.pos)) and np.all(np.isfinite(new_state.mom)))
    if before_finite and not pos_ok:
        ctx.violations.append(violation("non-finite-state", f"non-finite-state:{scn['transition']['type']}",
                                        f"transition returned a non-finite state (pos {np.asarray(new_state.pos).tolist()}, mom {np.asarray(new_state.mom).tolist()})"))
    unchanged = states_equal(before, new_state)
    if not unchanged and not any(new_state is o or states_equal(new_state, o) for o in mon.outputs):
        ctx.violations.append(violation("state-not-a-candidate", f"state-not-a-candidate:{scn['transition']['type']}",
                                        "returned state is neither the input state nor the output of a successful integrator step of this transition"))
    if not unchanged:
        # a state the chain moves to must have had a usable (non-NaN, not +inf) energy when it was selected;
        # reading h here returns what the transition cached in the state (injector paused: no new fault)
        with paused(ctx):
            try:
                hval = float(mon.system.h(new_state))
            except Exception:  # noqa: BLE001
                hval = None
        if hval is not None and (math.isnan(hval) or hval == math.inf):
            ctx.violations.append(violation("moved-to-invalid-candidate", f"moved-to-invalid-candidate:{scn['transition']['type']}",
                                            f"chain moved to a state whose Hamiltonian evaluated to {hval}"))
    h_in = None
    if input_state is not None:
        with paused(ctx):
            try:
                h_in = float(mon.system.h(input_state))  # as cached by the transition (NaN if the fault hit it)
            except Exception:  # noqa: BLE001
                h_in = None
    # (a model that is NaN/inf at the state the chain already sits in is outside the property)
    if not metrop and mon.outputs and h_in is not None and math.isfinite(h_in):
        # dynamic transitions: a trajectory state whose Hamiltonian evaluated to NaN/+inf is a divergence:
        # it must be recorded, zero the acceptance statistic and end the trajectory (no step after it)
        with paused(ctx):
            for idx, o in enumerate(mon.outputs):
                try:
                    ho = float(mon.system.h(o))  # value cached in the state by the transition itself
                except Exception:  # noqa: BLE001
                    continue
                if math.isnan(ho) or ho == math.inf:
                    if not stats.get("diverging"):
                        ctx.violations.append(violation("divergence-not-recorded", f"divergence-not-recorded:{scn['transition']['type']}",
                                                        f"trajectory state {idx + 1} of {len(mon.outputs)} has Hamiltonian {ho} but the diverging statistic is {stats.get('diverging')}"))
                    elif idx != len(mon.outputs) - 1:
                        ctx.violations.append(violation("continued-after-divergence", f"continued-after-divergence:{scn['transition']['type']}",
                                                        f"{len(mon.outputs) - idx - 1} integrator steps were taken after the trajectory state whose Hamiltonian evaluated to {ho}"))
                    break
    if stats.get("n_step") != len(mon.outputs):
        ctx.violations.append(violation("n-step", f"n-step:{scn['transition']['type']}",
                                        f"transition reports n_step={stats.get('n_step')} but {len(mon.outputs)} integrator steps succeeded (errors: {mon.errors})"))
    want = {
        "convergence_error": any(e == "ConvergenceError" for e in mon.errors),
        "non_reversible_step": any(e == "NonReversibleStepError" for e in mon.errors),
    }
    for k, w in want.items():
        if bool(stats.get(k)) != w:
            ctx.violations.append(violation("flag-mismatch", f"flag-mismatch:{k}:{scn['transition']['type']}",
                                            f"statistic {k}={stats.get(k)} but integrator errors seen in this transition: {mon.errors}"))
    if any(mon.errors):
        if stats.get("accept_stat") != 0.0:
            ctx.violations.append(violation("flag-mismatch", f"accept-stat-after-error:{scn['transition']['type']}",
                                            f"accept_stat={stats.get('accept_stat')} although the trajectory hit {mon.errors}"))
        if metrop and not unchanged:
            ctx.violations.append(violation("moved-after-error", f"moved-after-error:{scn['transition']['type']}",
                                            f"Metropolis transition moved although the trajectory hit {mon.errors}"))
    if "diverging" in stats and stats["diverging"] and stats.get("accept_stat") != 0.0:
        ctx.violations.append(violation("flag-mismatch", "accept-stat-after-divergence", "accept_stat non-zero after a divergence"))
