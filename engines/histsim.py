"""E4 — operation-history simulator for stateful caches.

State-cache machine (C09, C18): a pool of ChainStates derived from each other and two
distinct system objects of one class; operations are assignments, in-place updates,
copies, read-only copies, pickle round trips, method calls, component flows, integrator
steps and transitions.  Reference model = the same call on a state built from scratch.
Legal cache misses are injected through ``ForgetfulChainState``.
"""

from __future__ import annotations

import pickle
import random

import numpy as np

from models import hooks, zoo

STATE_METHODS = {
    "euclid": ["neg_log_dens", "grad_neg_log_dens", "h1", "dh1_dpos", "h2", "dh2_dpos", "dh2_dmom", "h", "dh_dpos", "dh_dmom"],
    "gauss": ["neg_log_dens", "grad_neg_log_dens", "h1", "dh1_dpos", "h2", "dh2_dpos", "dh2_dmom", "h", "dh_dpos", "dh_dmom"],
    "riem": ["neg_log_dens", "grad_neg_log_dens", "h1", "dh1_dpos", "h2", "dh2_dpos", "dh2_dmom", "h", "dh_dpos", "dh_dmom",
             "metric_func", "vjp_metric_func", "metric"],
    "riem_softabs": ["neg_log_dens", "grad_neg_log_dens", "h1", "dh1_dpos", "h2", "dh2_dpos", "dh2_dmom", "h", "dh_dpos", "dh_dmom",
                     "metric_func", "vjp_metric_func", "metric", "hess_neg_log_dens", "mtp_neg_log_dens"],
    "con": ["neg_log_dens", "grad_neg_log_dens", "h1", "dh1_dpos", "h2", "dh2_dpos", "dh2_dmom", "h", "dh_dpos", "dh_dmom",
            "constr", "jacob_constr", "gram", "inv_gram", "log_det_sqrt_gram"],
    "con_g": ["grad_log_det_sqrt_gram", "mhp_constr"],
}

# which user model functions a method may evaluate, and the state variables it depends on
DEPENDS = {
    "neg_log_dens": {"pos"}, "grad_neg_log_dens": {"pos"}, "h1": {"pos"}, "dh1_dpos": {"pos"},
    "constr": {"pos"}, "jacob_constr": {"pos"}, "gram": {"pos"}, "inv_gram": {"pos"}, "log_det_sqrt_gram": {"pos"},
    "grad_log_det_sqrt_gram": {"pos"}, "mhp_constr": {"pos"}, "metric_func": {"pos"}, "vjp_metric_func": {"pos"},
    "metric": {"pos"}, "hess_neg_log_dens": {"pos"}, "mtp_neg_log_dens": {"pos"},
}


def methods_for(spec):
    k = spec["kind"]
    if k in ("euclid", "gauss"):
        return list(STATE_METHODS[k])
    if k == "riem_softabs":
        return list(STATE_METHODS["riem_softabs"])
    if k.startswith("riem"):
        return list(STATE_METHODS["riem"])
    m = list(STATE_METHODS["con"])
    if k == "gcon" or not spec.get("hausdorff", True):
        m += STATE_METHODS["con_g"]
    return m


class ForgetfulDict(dict):
    """A cache dict that reports a seeded fraction of lookups as misses (value None) until
    the entry is written again: a *legal* cache miss that forces recomputation."""

    def __init__(self, *a, rate=0.5, seed=0, **k):
        super().__init__(*a, **k)
        self.rate = rate
        self.rng = random.Random(seed)
        self.forgotten = set()
        self.misses = 0

    def __contains__(self, key):
        present = super().__contains__(key)
        if present and super().__getitem__(key) is not None and self.rng.random() < self.rate:
            self.forgotten.add(key)
            self.misses += 1
        return present

    def __getitem__(self, key):
        if key in self.forgotten:
            return None
        return super().__getitem__(key)

    def __setitem__(self, key, value):
        self.forgotten.discard(key)
        super().__setitem__(key, value)

    def copy(self):
        c = ForgetfulDict(super().copy(), rate=self.rate, seed=self.rng.getrandbits(32))
        c.forgotten = set(self.forgotten)
        return c

    def items(self):
        return [(k, (None if k in self.forgotten else v)) for k, v in super().items()]

    def __reduce__(self):
        return (_rebuild_forgetful, (dict(super().items()), self.rate, self.rng.getrandbits(32), sorted(self.forgotten, key=str)))


def _rebuild_forgetful(d, rate, seed, forgotten):
    f = ForgetfulDict(d, rate=rate, seed=seed)
    f.forgotten = set(forgotten)
    return f


from mici.states import ChainState as _ChainState  # noqa: E402  (sys.path is set by the launcher first)


class ForgetfulChainState(_ChainState):
    """ChainState whose cache legally misses at a seeded rate (see ForgetfulDict)."""


def forgetful_copy_of(state, rate, seed):
    cls = ForgetfulChainState
    kw = {k: (None if v is None else (np.array(v, copy=True) if isinstance(v, np.ndarray) else v)) for k, v in state._variables.items()}  # noqa: SLF001
    return cls(_cache=ForgetfulDict(rate=rate, seed=seed), **kw)


# --------------------------------------------------------------------------------------
# comparing results of system methods


def probe_for(name, dim, ncon=1):
    g = np.random.default_rng(12345)
    if name in ("vjp_metric_func",):
        return None  # built per metric shape
    if name == "mtp_neg_log_dens":
        return g.standard_normal((dim, dim))
    if name == "mhp_constr":
        return g.standard_normal((ncon, dim))
    return None


def canon(val, name, state, system):
    """Canonical comparable form of a method result."""
    from mici.matrices import Matrix

    if isinstance(val, Matrix):
        import copy as _copy

        return ("matrix", type(val).__name__, np.array(_copy.deepcopy(val).array, dtype=float))
    if callable(val):
        g = np.random.default_rng(12345)
        dim = np.size(state.pos)
        if name == "vjp_metric_func":
            with_paused = system.metric_func(_fresh(state)) if hasattr(system, "metric_func") else None
            shape = np.shape(with_paused)
            probe = g.standard_normal(shape) if shape else float(g.standard_normal())
            if type(system).__name__.startswith("Cholesky"):
                probe = np.tril(probe)
        elif name == "mtp_neg_log_dens":
            probe = g.standard_normal((dim, dim))
        else:  # mhp_constr
            ncon = np.size(system.constr(_fresh(state)))
            probe = g.standard_normal((ncon, dim))
        return ("callable", np.array(val(probe), dtype=float))
    return ("value", np.array(val, dtype=float))


def _fresh(state):
    from mici.states import ChainState

    kw = {}
    for k, v in state._variables.items():  # noqa: SLF001
        if k in ("pos", "mom"):
            kw[k] = None if v is None else np.array(v, copy=True)
        elif k == "dir":
            kw[k] = v
    return ChainState(**kw)


def same(a, b, rtol=1e-12):
    if a[0] != b[0]:
        return False
    x, y = a[-1], b[-1]
    if x.shape != y.shape:
        return False
    if a[0] == "matrix" and a[1] != b[1]:
        return False
    return bool(np.allclose(x, y, rtol=rtol, atol=1e-12 * (1.0 + float(np.max(np.abs(y))) if y.size else 0.0), equal_nan=True))


# --------------------------------------------------------------------------------------
# counting user model-function evaluations (C18)


class Counter:
    def __init__(self):
        self.paused = 0
        self.calls = {}  # (fn name) -> count
        self.by_pos = {}  # (fn name, pos bytes) -> count
        self.total = 0
        self.events = []
        self.pos_events = []

    def handler(self, name, q):
        if self.paused:
            return None
        self.total += 1
        self.events.append(name)
        self.pos_events.append((name, None if q is None else np.asarray(q, dtype=float).tobytes()))
        self.calls[name] = self.calls.get(name, 0) + 1
        key = (name, None if q is None else np.asarray(q, dtype=float).tobytes())
        self.by_pos[key] = self.by_pos.get(key, 0) + 1
        return None


class paused:
    def __init__(self, counter):
        self.c = counter

    def __enter__(self):
        self.c.paused += 1

    def __exit__(self, *a):
        self.c.paused -= 1
        return False


# --------------------------------------------------------------------------------------
# the state-cache machine


def second_spec(spec, rng):
    """Same class and dimension, different parameters (target constants / metric)."""
    s2 = {k: v for k, v in spec.items()}
    s2["target"] = zoo.quartic_from_seed(rng, spec["dim"], offset=spec["target"]["offset"] + 1.5, scale=spec["target"]["scale"] * 1.3)
    if "metric" in spec and spec["metric"] is not None:
        mt = spec["metric"]["type"]
        if mt not in ("identity",):
            s2["metric"] = zoo.random_metric_spec(rng, spec["dim"], (mt,))
    if spec["kind"] == "riem_softabs":
        s2["softabs_coeff"] = spec.get("softabs_coeff", 1.0) * 1.7
    return s2


def gen_ops(rng, spec, n_ops, *, allow_inplace=True, allow_flows=True, allow_steps=True, allow_derive=False):
    meths = methods_for(spec)
    constrained = spec["kind"] in ("con", "gcon")
    ops = []
    # second system object DERIVED from the first one in mid-history (copy / deepcopy / pickle round trip, then
    # given another metric where the class has a settable one) instead of built independently
    derive_at = rng.randrange(1, max(2, n_ops - 2)) if allow_derive and rng.random() < 0.3 else None
    while len(ops) < n_ops:
        if derive_at is not None and len(ops) >= derive_at:
            ops.append(["derive", 0, rng.choice(["copy", "deepcopy", "pickle"])])
            derive_at = None
            continue
        r = rng.random()
        si = rng.randrange(4)
        sysi = rng.randrange(2)
        if rng.random() < 0.12:
            # motifs: short op patterns around one method that exercise sharing between derived states
            m = rng.choice(meths)
            var = "mom" if constrained else rng.choice(["pos", "mom"])
            motif = rng.choice(["copy-inplace", "copy-assign", "pickle", "cross-system", "assign-back", "ro-copy"])
            if motif == "copy-inplace" and allow_inplace:
                ops += [["call", si, sysi, m], ["copy", si, False], ["inplace", si, var, rng.choice(["mul", "add"]), rng.getrandbits(30)], ["call", -1, sysi, m], ["call", si, sysi, m]]
            elif motif == "copy-assign":
                ops += [["call", si, sysi, m], ["copy", si, False], ["assign", -1, rng.choice(["pos", "mom", "dir"]), rng.getrandbits(30)], ["call", si, sysi, m], ["call", -1, sysi, m]]
            elif motif == "pickle":
                ops += [["call", si, sysi, m], ["pickle", si], ["call", si, sysi, m], ["call", si, 1 - sysi, m]]
            elif motif == "cross-system":
                ops += [["call", si, 0, m], ["call", si, 1, m], ["assign", si, rng.choice(["pos", "mom"]), rng.getrandbits(30)], ["call", si, 1, m], ["call", si, 0, m]]
            elif motif == "assign-back":
                ops += [["call", si, sysi, m], ["assign", si, var, 11], ["call", si, sysi, m], ["assign", si, var, 12], ["call", si, sysi, m]]
            else:
                ops += [["call", si, sysi, m], ["copy", si, True], ["call", -1, sysi, m], ["assign", si, var, rng.getrandbits(30)], ["call", -1, sysi, m]]
            continue
        if r < 0.40:
            ops.append(["call", si, sysi, rng.choice(meths)])
        elif r < 0.55:
            var = rng.choice(["pos", "mom", "mom", "dir"])
            ops.append(["assign", si, var, rng.getrandbits(30)])
        elif r < 0.65 and allow_inplace:
            var = "mom" if constrained else rng.choice(["pos", "mom"])
            ops.append(["inplace", si, var, rng.choice(["mul", "add"]), rng.getrandbits(30)])
        elif r < 0.78:
            ops.append(["copy", si, rng.random() < 0.3])
        elif r < 0.86:
            ops.append(["pickle", si])
        elif r < 0.91 and allow_flows and spec["kind"] in ("euclid", "gauss", "con", "gcon"):
            ops.append(["flow", si, sysi, rng.choice(["h1", "h2"] if not constrained else ["h1"]), rng.choice([0.1, -0.2, 0.35])])
        elif r < 0.96 and allow_steps:
            ops.append(["step", si, sysi])
        elif allow_steps and rng.random() < 0.5:
            ops.append(["transition", si, sysi, rng.getrandbits(30)])
        elif allow_steps:
            # momentum transition (independent, partial refresh, no refresh) on a state that may hold cached values
            ops.append(["momtrans", si, sysi, rng.choice([1.0, 0.5, 0.9, 0.0]), rng.getrandbits(30)])
        else:
            ops.append(["call", si, sysi, rng.choice(meths)])
    return ops


class Machine:
    """Executes an op list against real mici objects; records violations."""

    def __init__(self, spec, spec2, ispec, *, check_values=True, counter=None):
        import mici
        from mici.states import ChainState

        self.spec = spec
        self._ispec = ispec
        self.counter = counter
        hooked = counter is not None
        self.systems = [zoo.build_system(spec, hooked="0:" if hooked else False)[0], zoo.build_system(spec2, hooked="1:" if hooked else False)[0]]
        self.tuple_conv = bool(spec.get("tuple_conv"))
        self.has = [set()]  # per state: (system idx, value name) known to be cached and valid
        self.free_calls = 0
        self.integrators = [zoo.build_integrator(s, ispec) for s in self.systems]
        self.transitions = [mici.transitions.MetropolisStaticIntegrationTransition(s, i, n_step=2) for s, i in zip(self.systems, self.integrators)]
        self.constrained = spec["kind"] in ("con", "gcon")
        r = random.Random(7)
        pos = zoo.start_position(spec, r, 0)
        st = ChainState(pos=np.array(pos, dtype=float), mom=None, dir=1, _call_counts={})
        g = np.random.default_rng(3)
        st.mom = g.standard_normal(np.size(pos))
        self.states = [st]
        self.read_only = [False]
        self.violations = []
        self.check_values = check_values
        self.n_checked = 0
        self.ops_done = 0
        self.op_counts = {}
        self.skipped = 0
        self.last_added = 0

    # -- helpers
    def _state(self, si):
        if si == -1:
            return self.last_added % len(self.states)
        return si % len(self.states)

    def _reference(self, sysi, meth, state):
        system = self.systems[sysi]
        if self.counter is not None:
            with paused(self.counter):
                fresh = _fresh(state)
                return canon(getattr(system, meth)(fresh), meth, fresh, system)
        fresh = _fresh(state)
        return canon(getattr(system, meth)(fresh), meth, fresh, system)

    def check_call(self, si, sysi, meth, context):
        from simkit.core import violation

        state = self.states[si]
        system = self.systems[sysi]
        ev0 = len(self.counter.events) if self.counter is not None else 0
        try:
            val = getattr(system, meth)(state)
            if self.counter is not None:
                self._efficiency(si, self.counter.events[ev0:], f"{type(system).__name__}.{meth}", context)
            if self.counter is not None:
                with paused(self.counter):
                    got = canon(val, meth, state, system)
            else:
                got = canon(val, meth, state, system)
        except Exception as e:  # noqa: BLE001
            self.violations.append(violation("call-raised", f"call-raised:{type(system).__name__}.{meth}:{type(e).__name__}", f"{meth} raised {type(e).__name__}: {e} after {context}"))
            return None
        if self.check_values:
            want = self._reference(sysi, meth, state)
            self.n_checked += 1
            if not same(got, want):
                root = self._alias_root()
                cls = "alias" if root else "stale"
                self.violations.append(
                    violation(
                        f"cache-{cls}",
                        f"cache-alias:{root}" if root else f"cache-stale:{type(system).__name__}.{meth}",
                        f"{type(system).__name__}.{meth}(state[{si}]) returned {np.ravel(got[-1])[:4].tolist()} but evaluated from scratch on the same variable values it is {np.ravel(want[-1])[:4].tolist()}; history: {context}",
                    )
                )
        return val

    PROVIDES_TUPLE = {
        "grad_neg_log_dens": ("grad_neg_log_dens", "neg_log_dens"),
        "hess_neg_log_dens": ("hess_neg_log_dens", "grad_neg_log_dens", "neg_log_dens"),
        "mtp_neg_log_dens": ("mtp_neg_log_dens", "hess_neg_log_dens", "grad_neg_log_dens", "neg_log_dens"),
        "vjp_metric_func": ("vjp_metric_func", "metric_func"),
        "jacob_constr": ("jacob_constr", "constr"),
        "mhp_constr": ("mhp_constr", "jacob_constr", "constr"),
    }
    CALLABLE_VALUES = ("vjp_metric_func", "mtp_neg_log_dens", "mhp_constr")

    def _efficiency(self, si, events, what, context):
        """C18 (a)/(b): a user function must not be evaluated for a value the state already holds."""
        from simkit.core import violation

        has = self.has[si]
        if not events:
            self.free_calls += 1
        for name in events:
            k, fn = name.split(":", 1)
            k = int(k)
            if (k, fn) in has:
                self.violations.append(
                    violation("recomputed", f"recomputed:{fn}",
                              f"{what}(state[{si}]) evaluated user function {fn} of system {k} although its value was already available for this state (cached by an earlier call, copy or auxiliary output); history: {context}")
                )
                return
            provided = self.PROVIDES_TUPLE.get(fn, (fn,)) if self.tuple_conv else (fn,)
            # SoftAbs systems: metric_func / vjp_metric_func are the Hessian / MTP functions
            for v in provided:
                has.add((k, v))

    def _alias_root(self):
        """If some state's cache holds an array that shares memory with a state variable of
        ANY state in the pool, name it: '<cached method>-><variable>' (root cause class)."""
        roots = set()
        for s in self.states:
            for (kname, _id), cval in list(dict.items(s._cache)):  # noqa: SLF001
                if not isinstance(cval, np.ndarray):
                    continue
                for t in self.states:
                    for vname, v in t._variables.items():  # noqa: SLF001
                        if isinstance(v, np.ndarray) and np.shares_memory(v, cval):
                            roots.add(f"{kname.split('.', 1)[1]}->{vname}")
        return sorted(roots)[0] if roots else None

    def _is_alias(self, val, state):
        if not isinstance(val, np.ndarray):
            return False
        for s in self.states:
            for v in s._variables.values():  # noqa: SLF001
                if isinstance(v, np.ndarray) and (v is val or np.shares_memory(v, val)) and s is not state:
                    return True
        return False

    # -- op execution
    def run(self, ops):
        import mici

        history = []
        for op in ops:
            kind = op[0]
            si = self._state(op[1])
            state = self.states[si]
            ro = self.read_only[si]
            self.op_counts[kind] = self.op_counts.get(kind, 0) + 1
            history.append(op)
            ctx = str(history[-12:])
            try:
                if kind == "call":
                    self.check_call(si, op[2], op[3], ctx)
                elif kind == "assign":
                    if ro:
                        self.skipped += 1
                        continue
                    var, seed = op[2], op[3]
                    g = np.random.default_rng(seed)
                    if var == "pos":
                        self.has[si] = set()
                    if var == "dir":
                        state.dir = 1 if seed % 2 else -1
                    elif var == "pos":
                        if self.constrained:
                            state.pos = np.array(zoo.start_position(self.spec, random.Random(seed), seed % 3), dtype=float)
                        else:
                            state.pos = g.standard_normal(np.size(state.pos))
                    else:
                        state.mom = g.standard_normal(np.size(state.pos))
                elif kind == "inplace":
                    if ro:
                        self.skipped += 1
                        continue
                    var, how, seed = op[2], op[3], op[4]
                    if var == "pos":
                        self.has[si] = set()
                    g = np.random.default_rng(seed)
                    if how == "mul":
                        f = 0.5 + g.uniform()
                        if var == "pos":
                            state.pos *= f
                        else:
                            state.mom *= f
                    else:
                        d = 0.3 * g.standard_normal(np.size(state.pos))
                        if var == "pos":
                            state.pos += d
                        else:
                            state.mom += d
                elif kind == "derive":
                    if self.counter is not None:
                        self.skipped += 1
                        continue
                    import copy as _copy

                    base = self.systems[0]
                    how = op[2]
                    new_sys = _copy.copy(base) if how == "copy" else _copy.deepcopy(base) if how == "deepcopy" else pickle.loads(pickle.dumps(base))
                    m2 = getattr(self.systems[1], "metric", None)
                    if m2 is not None and not callable(m2) and not callable(getattr(new_sys, "metric", lambda: 0)):
                        new_sys.metric = m2
                    self._keepalive = getattr(self, "_keepalive", []) + [self.systems[1], self.integrators[1], self.transitions[1]]
                    self.systems[1] = new_sys
                    self.integrators[1] = zoo.build_integrator(new_sys, self._ispec)
                    self.transitions[1] = mici.transitions.MetropolisStaticIntegrationTransition(new_sys, self.integrators[1], n_step=2)
                    self.has = [{h for h in hs_ if h[0] != 1} for hs_ in self.has]
                elif kind == "copy":
                    new = state.copy(read_only=bool(op[2]))
                    self._add(new, bool(op[2]), set(self.has[si]))
                elif kind == "pickle":
                    self.states[si] = pickle.loads(pickle.dumps(state))
                    self.has[si] = {(k, v) for (k, v) in self.has[si] if v not in self.CALLABLE_VALUES}
                elif kind == "flow":
                    if ro:
                        self.skipped += 1
                        continue
                    system = self.systems[op[2]]
                    (system.h1_flow if op[3] == "h1" else system.h2_flow)(state, op[4])
                    # evaluations made inside a flow are not judged; afterwards nothing is assumed cached
                    self.has[si] = set()
                elif kind == "step":
                    try:
                        new = self.integrators[op[2]].step(state)
                        self._add(new, False, set())
                    except mici.errors.IntegratorError:
                        self.skipped += 1
                elif kind == "momtrans":
                    if ro:
                        self.skipped += 1
                        continue
                    system = self.systems[op[2]]
                    T = mici.transitions
                    mt = T.IndependentMomentumTransition(system) if op[3] == 1.0 else T.CorrelatedMomentumTransition(system, op[3])
                    try:
                        new, _ = mt.sample(state, np.random.default_rng(op[4]))
                        self.states[si] = new
                        self.has[si] = set()
                    except (mici.errors.Error, ValueError, np.linalg.LinAlgError):
                        self.skipped += 1
                elif kind == "transition":
                    if ro:
                        self.skipped += 1
                        continue
                    rng = np.random.default_rng(op[3])
                    try:
                        new, _ = self.transitions[op[2]].sample(state, rng)
                        self.states[si] = new
                        self.has[si] = set()
                    except (mici.errors.Error, ValueError, np.linalg.LinAlgError):
                        self.skipped += 1
            except mici.errors.ReadOnlyStateError:
                self.skipped += 1
            self.ops_done += 1
            if self.violations:
                return

    def _add(self, new, ro, has=None):
        has = set() if has is None else has
        if len(self.states) < 4:
            self.states.append(new)
            self.read_only.append(ro)
            self.has.append(has)
            self.last_added = len(self.states) - 1
        else:
            k = (self.ops_done * 7 + 1) % 4
            self.states[k] = new
            self.read_only[k] = ro
            self.has[k] = has
            self.last_added = k


def ddmin(ops, fails):
    """Classic delta debugging on a list; fails(list)->bool."""
    n = 2
    cur = list(ops)
    while len(cur) >= 2:
        chunk = max(1, len(cur) // n)
        reduced = False
        for i in range(0, len(cur), chunk):
            cand = cur[:i] + cur[i + chunk :]
            if cand and fails(cand):
                cur = cand
                n = max(n - 1, 2)
                reduced = True
                break
        if not reduced:
            if chunk == 1:
                break
            n = min(len(cur), n * 2)
    return cur
