"""E2 workload: drive mici samplers through the public API under the process simulator.

Real code: all of mici.  Observation seams (installed in the check's interpreter only):
* ``Recording`` proxies around the sampler's real transitions append a ground-truth log
  entry at the moment ``sample()`` returns, then yield to the scheduler;
* ``RecordingAdapter`` proxies around real adapters log initialize/update/finalize;
* ``mici.samplers._sample_chain`` is wrapped by a pure observer that notes which chain
  a thread is working on (thread-local) and the arguments of the call;
* user callbacks (trace functions, model functions) report to models.hooks, which is
  where interrupts are injected.
"""

from __future__ import annotations

import copy
import hashlib
import shutil
import tempfile
import threading
import traceback
import logging

import numpy as np

from engines import procsim
from models import hooks, zoo
from simkit.core import derive_seed, digest

logging.getLogger("mici").setLevel(logging.CRITICAL)
logging.getLogger("mici.samplers").setLevel(logging.CRITICAL)

_TL = threading.local()

# ground truth of the run in progress (process-global; simulated workers are threads)
RUN = None


class RunLog:
    def __init__(self):
        self.entries = []  # transition returns
        self.calls = []  # _sample_chain calls
        self.adapter = []  # adapter events
        self.callbacks = 0  # in-iteration user-callback calls
        self.callbacks_total = 0
        self.interrupt = None  # {"at": k, "mode": ...}
        self.interrupt_fired = []  # (task, callback index, name)
        self.interrupt_dropped = []  # interrupts aimed at a simulated process whose SIGINT disposition is "ignore"
        self.broadcast = False
        self.stages = None
        self.log_metric_arrays = False
        self.mom_draws = []  # (generator state before, consumed?, task, inside _sample_chain?) of every System.sample_momentum call


def _tl(name, default=None):
    return getattr(_TL, name, default)


def arr_digest(a) -> str:
    a = np.ascontiguousarray(np.asarray(a))
    return hashlib.sha256(a.tobytes() + str(a.dtype).encode() + str(a.shape).encode()).hexdigest()[:16]


def rng_digest(rng) -> str:
    bg = getattr(rng, "bit_generator", None) or getattr(rng, "_bit_generator", None)
    st = bg.state
    return digest(st)


def metric_fingerprint(system) -> str:
    m = getattr(system, "metric", None)
    if m is None or callable(m):
        return "n/a"
    if m.shape[0] is None:
        return "implicit-identity"
    try:
        return type(m).__name__ + ":" + arr_digest(copy.deepcopy(m).array)
    except Exception as e:  # noqa: BLE001
        return f"error:{type(e).__name__}"


def snap_state(state):
    out = {}
    for k, v in state._variables.items():  # noqa: SLF001
        out[k] = None if v is None else np.array(v, copy=True)
    return out


# --------------------------------------------------------------------------------------
# proxies


class Recording:
    """Transparent proxy around a real transition; logs every return of sample()."""

    def __init__(self, inner, key, record_h=False):
        self.__dict__["_inner"] = inner
        self.__dict__["_key"] = key
        self.__dict__["_record_h"] = record_h

    def __reduce__(self):
        return (Recording, (self._inner, self._key, self._record_h))

    def __getattr__(self, name):
        return getattr(self.__dict__["_inner"], name)

    def __setattr__(self, name, value):
        setattr(self.__dict__["_inner"], name, value)

    @property
    def state_variables(self):
        return self._inner.state_variables

    @property
    def statistic_types(self):
        return self._inner.statistic_types

    def sample(self, state, rng):
        run = RUN
        pre = rng_digest(rng)
        _TL.iter_started = True
        _TL.in_transition = True
        try:
            new_state, stats = self._inner.sample(state, rng)
        finally:
            _TL.in_transition = False
        if run is not None:
            inner = self._inner
            integ = getattr(inner, "integrator", None)
            system = getattr(inner, "system", None)
            e = {
                "chain": _tl("chain"),
                "call": _tl("call_id"),
                "trans": self._key,
                "pre_rng": pre,
                "post_rng": rng_digest(rng),
                "state": snap_state(new_state),
                "stats": None if stats is None else dict(stats),
                "step_size": None if integ is None else integ.step_size,
                "metric": "n/a" if system is None else metric_fingerprint(system),
                "scale": getattr(inner, "scale", getattr(inner, "amount", None)),
                "task": threading.current_thread().name,
            }
            if run.log_metric_arrays and system is not None:
                e["metric_array"] = _metric_array(system)
            if self._record_h and system is not None and new_state.mom is not None:
                with paused():
                    from mici.states import ChainState

                    fresh = ChainState(
                        pos=np.array(new_state.pos, copy=True),
                        mom=np.array(new_state.mom, copy=True),
                        dir=new_state.dir,
                    )
                    try:
                        e["h"] = float(system.h(fresh))
                    except Exception:  # noqa: BLE001
                        e["h"] = None
            run.entries.append(e)
        procsim.sim_yield("transition")
        return new_state, stats


class RecordingAdapter:
    def __init__(self, inner, label):
        self.__dict__["_inner"] = inner
        self.__dict__["_label"] = label

    def __reduce__(self):
        return (RecordingAdapter, (self._inner, self._label))

    def __getattr__(self, name):
        return getattr(self.__dict__["_inner"], name)

    @property
    def is_fast(self):
        return self._inner.is_fast

    def _params(self, transition):
        integ = getattr(transition, "integrator", None)
        system = getattr(transition, "system", None)
        return {
            "step_size": None if integ is None else integ.step_size,
            "metric": "n/a" if system is None else metric_fingerprint(system),
            "scale": getattr(transition, "scale", getattr(transition, "amount", None)),
        }

    def _log(self, ev, transition, before, **kw):
        if RUN is not None:
            RUN.adapter.append(
                {
                    "ev": ev,
                    "seq": len(RUN.entries),
                    "adapter": self._label,
                    "trans_key": transition.__dict__.get("_key") if hasattr(transition, "__dict__") else None,
                    "chain": _tl("chain"),
                    "call": _tl("call_id"),
                    "before": before,
                    "after": self._params(transition),
                    "task": threading.current_thread().name,
                    **kw,
                }
            )

    def initialize(self, chain_state, transition):
        before = self._params(transition)
        try:
            out = self._inner.initialize(chain_state, transition)
        except BaseException as e:
            self._log("initialize-raised", transition, before, error=type(e).__name__)
            raise
        extra = {}
        if self._label.startswith("dual") and RUN is not None and getattr(transition, "integrator", None) is not None:
            extra["init_probe"] = _probe_init_step_size(chain_state, transition)
            if isinstance(out, dict):
                extra["reg_target"] = out.get("log_step_size_reg_target")
        self._log("initialize", transition, before, **extra)
        return out

    def update(self, adapt_state, chain_state, trans_stats, transition):
        before = self._params(transition)
        self._inner.update(adapt_state, chain_state, trans_stats, transition)
        self._log(
            "update",
            transition,
            before,
            pos=np.array(chain_state.pos, copy=True),
            accept_stat=None if trans_stats is None else trans_stats.get("accept_stat"),
            adapt_iter=adapt_state.get("iter", adapt_state.get("n_update")) if isinstance(adapt_state, dict) else None,
        )

    def finalize(self, adapt_states, chain_states, transition, rngs):
        before = self._params(transition)
        cs = [chain_states] if not isinstance(chain_states, (list, tuple)) else list(chain_states)
        rl = [rngs] if not isinstance(rngs, (list, tuple)) else list(rngs)
        mom_before = [None if s.mom is None else np.array(s.mom, copy=True) for s in cs if "mom" in s]
        rng_before = [rng_digest(r) for r in rl]
        as_copy = copy.deepcopy(adapt_states)
        rng_copies = copy.deepcopy(rl)
        try:
            self._inner.finalize(adapt_states, chain_states, transition, rngs)
        except BaseException as e:
            self._log(
                "finalize-raised", transition, before, error=type(e).__name__, n_states=len(cs), n_rngs=len(rl),
                adapt_states=_adapt_states_summary(as_copy),
            )
            raise
        self._log(
            "finalize",
            transition,
            before,
            n_states=len(cs),
            mom_changed=[
                (b is None) or (not np.array_equal(b, s.mom)) for b, s in zip(mom_before, [s for s in cs if "mom" in s])
            ],
            rng_advanced=[b != rng_digest(r) for b, r in zip(rng_before, rl)],
            rng_before=rng_before,
            adapt_states=_adapt_states_summary(as_copy),
            metric_array=_metric_array(getattr(transition, "system", None)),
            states_after=[snap_state(s_) for s_ in cs],
            mom_expected=_expected_momenta(transition, cs, rng_copies) if self._label.split("#")[0] in ("var", "cov") else None,
        )


def _metric_array(system):
    m = getattr(system, "metric", None)
    if m is None or callable(m) or m.shape[0] is None:
        return None
    try:
        return np.array(copy.deepcopy(m).array, copy=True)
    except Exception:  # noqa: BLE001
        return None


def _expected_momenta(transition, states, rng_copies):
    """Momenta an independent draw under the *current* metric gives from copies of the
    generators as they were before finalize (reference for 'momenta refreshed under the
    new metric'), computed on fresh states so that no cache is shared."""
    from mici.states import ChainState

    out = []
    system = getattr(transition, "system", None)
    if system is None:
        return None
    with paused():
        for s_, r in zip(states, rng_copies):
            if "mom" not in s_:
                out.append(None)
                continue
            fresh = ChainState(pos=np.array(s_.pos, copy=True), mom=None, dir=1)
            try:
                out.append(np.array(system.sample_momentum(fresh, r), copy=True))
            except Exception:  # noqa: BLE001
                out.append(None)
    return out


def _probe_init_step_size(chain_state, transition):
    """One-step energy changes at r, 2r and r/2 (r = step size the search returned),
    evaluated with the real integrator on fresh copies."""
    from mici.errors import IntegratorError
    from mici.states import ChainState

    integ, system = transition.integrator, transition.system
    r = integ.step_size
    out = {"r": r}
    with paused():
        try:
            for name, eps in (("dh_r", r), ("dh_2r", 2 * r), ("dh_half", r / 2)):
                fresh = ChainState(
                    pos=np.array(chain_state.pos, copy=True), mom=np.array(chain_state.mom, copy=True), dir=chain_state.dir
                )
                h0 = float(system.h(fresh))
                integ.step_size = eps
                try:
                    new = integ.step(fresh)
                    out[name] = abs(h0 - float(system.h(new)))
                except IntegratorError:
                    out[name] = "error"
        finally:
            integ.step_size = r
    return out


def _adapt_states_summary(adapt_states):
    lst = [adapt_states] if isinstance(adapt_states, dict) else list(adapt_states)
    out = []
    for a in lst:
        out.append({k: (np.array(v, copy=True) if isinstance(v, np.ndarray) else v) for k, v in a.items()})
    return out


class RWTransition:
    """Random-walk Metropolis transition on 'pos' for the generic sampler (harness-side)."""

    def __init__(self, model, scale, label="rw", extra_stat=None):
        self.model, self.scale, self.label = model, scale, label
        self.extra_stat = extra_stat  # name of one more statistic (chosen so that key pairs of two transitions collide)

    @property
    def state_variables(self):
        return {"pos"}

    @property
    def statistic_types(self):
        types = {
            "accepted": (bool, False),
            "delta": (np.float64, np.nan),
            "count": (np.int64, -1),
            "scale": (np.float64, np.nan),
        }
        if getattr(self, "extra_stat", None):
            types[self.extra_stat] = (np.float64, np.nan)
        return types

    def sample(self, state, rng):
        prop = state.pos + self.scale * rng.standard_normal(state.pos.shape)
        f = zoo.Hooked(self.model.nld, "neg_log_dens")
        delta = f(state.pos) - f(prop)
        acc = bool(np.log(rng.uniform()) < delta)
        if acc:
            state.pos = prop
        stats = {"accepted": acc, "delta": delta, "count": int(np.sum(state.pos > 0)), "scale": self.scale}
        if getattr(self, "extra_stat", None):
            stats[self.extra_stat] = 2.0 * float(np.sum(state.pos)) + 1.0
        return state, stats


class NoStatsTransition:
    """Deterministic-plus-noise jitter transition returning no statistics."""

    def __init__(self, amount):
        self.amount = amount

    @property
    def state_variables(self):
        return {"pos"}

    @property
    def statistic_types(self):
        return None

    def sample(self, state, rng):
        state.pos = state.pos + self.amount * rng.standard_normal(state.pos.shape)
        return state, None


class JitterAmountAdapter:
    """Fast adapter for NoStatsTransition.amount; adapts from the chain state only (the
    transition it is keyed on returns no statistics)."""

    is_fast = True

    def initialize(self, chain_state, transition):  # noqa: ARG002
        # like the real adapters, start every chain from the same parameter value: chains handled by one
        # worker process share the transition object
        transition.amount = 0.05
        return {"iter": 0, "sum_abs": 0.0}

    def update(self, adapt_state, chain_state, trans_stats, transition):  # noqa: ARG002
        adapt_state["iter"] += 1
        adapt_state["sum_abs"] += float(np.mean(np.abs(chain_state.pos)))
        transition.amount = 0.01 + 0.05 * adapt_state["sum_abs"] / adapt_state["iter"]

    def finalize(self, adapt_states, chain_states, transition, rngs):  # noqa: ARG002
        lst = [adapt_states] if isinstance(adapt_states, dict) else list(adapt_states)
        n = sum(a["iter"] for a in lst)
        transition.amount = 0.02 if n == 0 else 0.01 + 0.05 * sum(a["sum_abs"] for a in lst) / n


class RWScaleAdapter:
    """Fast adapter for RWTransition.scale (harness-side; exercises generic adapter paths)."""

    is_fast = True

    def initialize(self, chain_state, transition):  # noqa: ARG002
        transition.scale = 1.0
        # an adapter state is a plain dict with keys of the adapter's own choosing: deliberately none of the names
        # the built-in adapters use ("iter", "mean", ...)
        return {"n_update": 0, "log_scale": 0.0}

    def update(self, adapt_state, chain_state, trans_stats, transition):  # noqa: ARG002
        adapt_state["n_update"] += 1
        adapt_state["log_scale"] += (0.3 if trans_stats["accepted"] else -0.3) / adapt_state["n_update"]
        transition.scale = float(np.exp(adapt_state["log_scale"]))

    def finalize(self, adapt_states, chain_states, transition, rngs):  # noqa: ARG002
        lst = [adapt_states] if isinstance(adapt_states, dict) else list(adapt_states)
        transition.scale = float(np.exp(np.mean([a["log_scale"] for a in lst])))


# --------------------------------------------------------------------------------------
# trace functions (module level => picklable); each reports to hooks


def _cb(name, state):
    hooks.on_call("trace:" + name, None)


def trace_pos(state):
    _cb("pos", state)
    return {"pos": state.pos}


def trace_a(state):
    _cb("a", state)
    return {"x": state.pos * 2.0, "shared": state.pos + 1.0}


def trace_b(state):
    _cb("b", state)
    return {"shared": state.pos - 1.0, "sumsq": float(np.sum(state.pos**2))}


def trace_scalar(state):
    _cb("scalar", state)
    return {"first": state.pos[0], "npos": int(np.sum(state.pos > 0))}


def trace_tag(state):
    _cb("tag", state)
    return {"tag": state.tag, "pos": state.pos}


def trace_placeholder(state):
    _cb("placeholder", state)
    # integer placeholders which a later trace function overrides with float quantities
    return {"val": 0, "vec": np.zeros(np.size(state.pos), dtype=np.int64)}


def trace_override(state):
    _cb("override", state)
    return {"val": float(np.sum(state.pos**2)) + 0.5, "vec": state.pos * 1.5}


def trace_odd_keys(state):
    _cb("odd", state)
    # keys that differ only in characters a file name cannot carry
    return {"pos/x": state.pos * 1.0, "posx": state.pos * 2.0, "pos x": state.pos * 3.0, "pos:x": state.pos * 4.0}


def trace_big(state):
    """A large traced variable (320 kB per row): a few chains x iterations exceed any few-MiB allocation threshold."""
    _cb("big", state)
    return {"big": np.full(40000, float(np.ravel(state.pos)[0])), "pos": state.pos}


TRACE_SETS = {
    "big": [trace_big],
    "none": None,
    "empty": [],
    "pos": [trace_pos],
    "two_overlap": [trace_a, trace_b],
    "scalar": [trace_scalar],
    "tag": [trace_tag],
    "three": [trace_pos, trace_a, trace_b],
    "odd_keys": [trace_odd_keys],
    "override_dtype": [trace_placeholder, trace_override],
}


def apply_trace_set(name, snap):
    """Reference evaluation of a trace set on a state snapshot (dict of arrays)."""

    class _S:
        pass

    s = _S()
    for k, v in snap.items():
        setattr(s, k, v)
    out = {}
    with paused():
        for f in TRACE_SETS[name] or []:
            out.update(f(s))
    return out


# --------------------------------------------------------------------------------------
# hooks: counting and interrupt injection

_PAUSE = {"n": 0}


class paused:
    def __enter__(self):
        _PAUSE["n"] += 1

    def __exit__(self, *a):
        _PAUSE["n"] -= 1
        return False


def _handler(name, q):  # noqa: ARG001
    run = RUN
    if run is None or _PAUSE["n"]:
        return None
    run.callbacks_total += 1
    if not (_tl("in_chain") and _tl("iter_started")):
        return None
    run.callbacks += 1
    me = threading.current_thread().name
    it = run.interrupt
    if it is not None:
        if run.callbacks == it["at"]:
            if it.get("mode") == "broadcast":
                sim = procsim.current()
                if sim is not None:
                    for n, t in sim.tasks.items():
                        if n != me and not t["done"]:
                            sim.interrupt_pending.add(n)
            if _ignores_sigint(me):
                run.interrupt_dropped.append((me, run.callbacks, name))
                return None
            run.interrupt_fired.append((me, run.callbacks, name))
            raise KeyboardInterrupt
        sim = procsim.current()
        if sim is not None and me in sim.interrupt_pending:
            sim.interrupt_pending.discard(me)
            if _ignores_sigint(me):
                run.interrupt_dropped.append((me, run.callbacks, name))
                return None
            run.interrupt_fired.append((me, run.callbacks, name))
            raise KeyboardInterrupt
    return None


def _ignores_sigint(task):
    """SIGINT disposition of the simulated process running `task` (see procsim docstring)."""
    sim = procsim.current()
    if sim is None or task == sim.main_name or task not in sim.tasks:
        return procsim.parent_ignores_sigint()
    return bool(sim.tasks[task].get("sigint_ignored"))


# --------------------------------------------------------------------------------------
# _sample_chain observer


def _install_observer(ms):
    real = ms._sample_chain  # noqa: SLF001

    def observed(*args, **kwargs):
        run = RUN
        chain = kwargs.get("chain_index", 0)
        _TL.chain = chain
        _TL.in_chain = True
        _TL.iter_started = False
        call_id = None
        if run is not None:
            call_id = len(run.calls)
            it = kwargs.get("chain_iterator")
            run.calls.append(
                {
                    "chain": chain,
                    "n_iter": len(it) if it is not None else None,
                    "offset": kwargs.get("sampling_index_offset", 0),
                    "has_traces": kwargs.get("chain_traces") is not None and kwargs.get("trace_funcs") is not None,
                    "has_stats": kwargs.get("chain_stats") is not None,
                    "adapters": None
                    if kwargs.get("adapters") is None
                    else {k: [getattr(a, "_label", type(a).__name__) for a in v] for k, v in kwargs["adapters"].items()},
                    "task": threading.current_thread().name,
                    "pre_rng": rng_digest(kwargs["rng"]) if "rng" in kwargs else None,
                    "outcome": None,
                }
            )
            sim = procsim.current()
            if sim is not None:
                sim.assign.setdefault(chain, []).append(threading.current_thread().name)
        _TL.call_id = call_id
        try:
            out = real(*args, **kwargs)
            if run is not None and call_id is not None:
                exc = out[-1]
                run.calls[call_id]["outcome"] = "ok" if exc is None else type(exc).__name__
                sim = procsim.current()
                if sim is not None:
                    sim.completion.append(chain)
            return out
        except BaseException as e:
            if run is not None and call_id is not None:
                run.calls[call_id]["outcome"] = "raised:" + type(e).__name__
            raise
        finally:
            _TL.in_chain = False
            _TL.iter_started = False

    ms._sample_chain = observed  # noqa: SLF001
    _observe_momentum_draws()
    # the adapter HamiltonianMonteCarlo.sample_chains creates by default is observed too
    real_da = ms.DualAveragingStepSizeAdapter
    if not getattr(real_da, "_verif_wrapped", False):
        def _default_adapter(*a, **k):
            return RecordingAdapter(real_da(*a, **k), "dual#default")

        _default_adapter._verif_wrapped = True  # noqa: SLF001
        _default_adapter._real = real_da  # noqa: SLF001
        ms.DualAveragingStepSizeAdapter = _default_adapter
    return real


def _observe_momentum_draws():
    """Class-level observer of every momentum draw (initial states, momentum transitions, adapters):
    logs the state of whichever generator was handed in, before the draw, and whether it advanced."""
    import mici.systems as msys

    for cls in vars(msys).values():
        if not isinstance(cls, type) or "sample_momentum" not in vars(cls):
            continue
        real = vars(cls)["sample_momentum"]
        if getattr(real, "_verif_wrapped", False) or getattr(real, "__isabstractmethod__", False):
            continue

        def wrapped(self, state, rng, _real=real):
            run = RUN
            if run is None or _PAUSE["n"] or getattr(_TL, "in_mom_draw", False):
                return _real(self, state, rng)  # harness-side draw, or super() call of an outer observed draw
            try:
                before = rng_digest(rng)
            except Exception:  # noqa: BLE001
                before = None
            _TL.in_mom_draw = True
            try:
                out = _real(self, state, rng)
            finally:
                _TL.in_mom_draw = False
            if before is not None:
                run.mom_draws.append((before, rng_digest(rng) != before, threading.current_thread().name, bool(getattr(_TL, "in_chain", False))))
            return out

        wrapped._verif_wrapped = True  # noqa: SLF001
        wrapped._real = real  # noqa: SLF001
        wrapped.__name__ = "sample_momentum"
        setattr(cls, "sample_momentum", wrapped)


# --------------------------------------------------------------------------------------
# building and running a scenario

BITGENS = ("PCG64", "PCG64DXSM", "MT19937", "Philox", "SFC64", "RandomState")


def make_rng(name, seed):
    if name == "RandomState":
        return np.random.RandomState(seed % (2**32))
    return np.random.Generator(getattr(np.random, name)(seed))


def build_adapters(names):
    import mici

    A = mici.adapters
    out = []
    for i, n in enumerate(names):
        if isinstance(n, dict):
            kind, kw = n["type"], {k: v for k, v in n.items() if k != "type"}
        else:
            kind, kw = n, {}
        if "reducer" in kw:
            kw["log_step_size_reducer"] = {
                "arith": A.arithmetic_mean_log_step_size_reducer,
                "geom": A.geometric_mean_log_step_size_reducer,
                "min": A.min_log_step_size_reducer,
            }[kw.pop("reducer")]
        inner = {
            "dual": A.DualAveragingStepSizeAdapter,
            "var": A.OnlineVarianceMetricAdapter,
            "cov": A.OnlineCovarianceMetricAdapter,
            "rwscale": RWScaleAdapter,
            "jitamount": JitterAmountAdapter,
        }[kind](**kw)
        out.append(RecordingAdapter(inner, f"{kind}#{i}"))
    return out


def build_stager(spec):
    import mici

    if spec is None:
        return None
    if spec["type"] == "warmup":
        return mici.stagers.WarmUpStager()
    kw = {k: v for k, v in spec.items() if k != "type"}
    return mici.stagers.WindowedWarmUpStager(**kw)


def build_sampler(scn):
    import mici

    rng = make_rng(scn.get("bitgen", "PCG64"), scn["run_seed"])
    kind = scn["sampler"]
    sysspec = scn["system"]
    if kind == "generic":
        model = zoo.Quartic(**sysspec["target"])
        # optional colliding key pairs: ("rw", "b_accepted") and ("rw_b", "accepted") both join to "rw_b_accepted"
        collide = bool(scn.get("colliding_stat_keys")) and bool(scn.get("third_transition"))
        third_key = "rw_b" if collide else "rw2"
        transitions = {"rw": Recording(RWTransition(model, scn.get("rw_scale", 0.7), extra_stat="b_accepted" if collide else None), "rw")}
        if scn.get("second_transition"):
            transitions["jit"] = Recording(NoStatsTransition(0.05), "jit")
        if scn.get("third_transition"):
            # a second statistics-bearing transition with the SAME statistic keys as the first
            transitions[third_key] = Recording(RWTransition(model, 0.2, label=third_key), third_key)
        import warnings

        with warnings.catch_warnings():
            warnings.simplefilter("ignore")
            sampler = mici.samplers.MarkovChainMonteCarloMethod(rng, transitions)
        return sampler, None, model
    system, model = zoo.build_system(sysspec, hooked=True)
    integ = zoo.build_integrator(system, scn["integrator"])
    kw = dict(scn.get("sampler_kwargs", {}))
    if "termination_criterion" in kw:
        kw["termination_criterion"] = {
            "euclidean": mici.transitions.euclidean_no_u_turn_criterion,
            "riemannian": mici.transitions.riemannian_no_u_turn_criterion,
        }[kw["termination_criterion"]]
    if "mom_resample_coeff" in kw:
        kw["momentum_transition"] = mici.transitions.CorrelatedMomentumTransition(
            system, kw.pop("mom_resample_coeff")
        )
    cls = {
        "static": mici.samplers.StaticMetropolisHMC,
        "random": mici.samplers.RandomMetropolisHMC,
        "multinomial": mici.samplers.DynamicMultinomialHMC,
        "slice": mici.samplers.DynamicSliceHMC,
    }[kind]
    import warnings

    with warnings.catch_warnings():
        warnings.simplefilter("ignore")
        sampler = cls(system, integ, rng, **kw)
    record_h = scn.get("trace") == "default"
    for k in list(sampler.transitions):
        sampler.transitions[k] = Recording(sampler.transitions[k], k, record_h=record_h)
    return sampler, system, model


def build_init_states(scn, system):
    from mici.states import ChainState

    out = []
    spec = scn["system"]
    for c in range(scn["n_chain"]):
        var = scn["init_variants"][c] if scn.get("init_variants") else c
        r = __import__("random").Random(derive_seed(scn.get("init_seed", scn["run_seed"]), "init", var))
        pos = zoo.start_position(spec, r, variant=var)
        mode = scn.get("init", "state")
        if scn["sampler"] == "generic":
            if mode == "dict":
                out.append({"pos": pos, "tag": np.array(float(c))})
            else:
                out.append(ChainState(pos=pos, tag=np.array(float(c))))
        elif mode == "array":
            out.append(pos)
        else:
            st = ChainState(pos=pos, mom=None, dir=1, tag=np.array(float(c)))
            if mode == "state_mom":
                # momentum supplied by the caller (drawn from a harness generator)
                g = np.random.default_rng(derive_seed(scn["run_seed"], "mom", c))
                with paused():
                    st.mom = system.sample_momentum(st, g)
            out.append(st)
    return out


def snapshot_outputs(res, generic):
    final_states, traces, stats = res
    fs = [snap_state(s) for s in final_states]
    tr = None if traces is None else {k: [np.array(a, copy=True) for a in v] for k, v in traces.items()}
    if generic:
        st = {tk: {k: [np.array(a, copy=True) for a in v] for k, v in d.items()} for tk, d in stats.items()}
    else:
        st = {"integration_transition": {k: [np.array(a, copy=True) for a in v] for k, v in stats.items()}}
    return {"final_states": fs, "traces": tr, "stats": st}


class Record:
    """Everything one simulated sample_chains call produced."""


def run_scenario_raw(scn) -> Record:
    """Run one sample_chains call described by scn under the simulator; never raises
    for anything mici does (outcome is classified instead)."""
    global RUN
    import mici.samplers as ms

    rec = Record()
    rec.scn = scn
    run = RunLog()
    run.interrupt = scn.get("interrupt")
    run.log_metric_arrays = bool(scn.get("log_metric_arrays"))
    sched = scn.get("sched") or {}
    n_process = scn.get("n_process", 1)
    use_sim = n_process != 1
    sim = (
        procsim.Sim(
            sched.get("seed", derive_seed(scn["run_seed"], "sched")),
            policy=sched.get("policy", "random"),
            preempt=sched.get("preempt", 0.5),
            explicit=sched.get("explicit"),
            step_cap=sched.get("step_cap", 400_000),
            cpu_count=scn.get("cpu_count", 3),
        )
        if use_sim
        else None
    )
    disk = procsim.Disk()
    tmpdir = None
    real_sc = None
    hooks.install(_handler)
    RUN = run
    rec.outcome = None
    rec.files_equal = None
    rec.durable = None
    rec.error_site = None
    rec.error = None
    rec.outputs = None
    rec.raw = None
    try:
        sampler, system, model = build_sampler(scn)
        init_states = build_init_states(scn, system)
        rec.init_states = [
            (snap_state(s) if hasattr(s, "_variables") else ({k: np.array(v) for k, v in s.items()} if isinstance(s, dict) else {"pos": np.array(s)}))
            for s in init_states
        ]
        kwargs = {
            "n_process": n_process,
            "display_progress": False,
            "trace_warm_up": bool(scn.get("trace_warm_up", False)),
        }
        generic = scn["sampler"] == "generic"
        tset = scn.get("trace", "pos")
        if tset != "default":
            kwargs["trace_funcs"] = TRACE_SETS[tset]
        elif generic:
            kwargs["trace_funcs"] = TRACE_SETS["pos"]
        ad = scn.get("adapters", [])
        if ad != "default":
            adl = build_adapters(ad) if ad is not None else None
            if generic:
                if adl is None:
                    kwargs["adapters"] = None
                else:
                    d = {}
                    for a_ in adl:
                        d.setdefault("jit" if a_._label.startswith("jitamount") else "rw", []).append(a_)  # noqa: SLF001
                    if "jit" in d and "jit" not in sampler.transitions:
                        d.pop("jit")
                    kwargs["adapters"] = d
            else:
                kwargs["adapters"] = adl
        elif generic:
            kwargs["adapters"] = None
        st = build_stager(scn.get("stager"))
        if st is not None:
            kwargs["stager"] = st
        if "monitor_stats" in scn:
            kwargs["monitor_stats"] = scn["monitor_stats"]
        storage = scn.get("storage", "mem")
        if storage != "mem":
            kwargs["force_memmap"] = True
        if storage == "memmap_dir":
            tmpdir = tempfile.mkdtemp(prefix="mici-verif-", dir=scn.get("scratch_root"))
            kwargs["memmap_path"] = tmpdir
        rec.system = system
        rec.sampler = sampler
        _t0 = list(sampler.transitions.values())[-1] if scn["sampler"] != "generic" else sampler.transitions["rw"]
        _integ = getattr(_t0, "integrator", None)
        rec.initial_params_by_key = {
            k: {"step_size": getattr(getattr(t, "integrator", None), "step_size", None),
                "metric": "n/a" if getattr(t, "system", None) is None else metric_fingerprint(t.system),
                "scale": getattr(t, "scale", getattr(t, "amount", None))}
            for k, t in sampler.transitions.items()
        }
        rec.initial_params = {
            "step_size": None if _integ is None else _integ.step_size,
            "metric": "n/a" if system is None else metric_fingerprint(system),
            "scale": getattr(_t0, "scale", None),
        }
        _own_sigint = _reset_sigint()
        with procsim.installed(sim, disk):
            real_sc = _install_observer(ms)
            try:
                res = sampler.sample_chains(scn["n_warm_up"], scn["n_main"], init_states, **kwargs)
                rec.outcome = "returned"
                rec.outputs = snapshot_outputs(res, generic)
                rec.raw = res
                # durable image check data (memmaps)
                rec.durable = {}
                trs = res[1] or {}
                allarrs = []
                for k, v in trs.items():
                    allarrs.extend((f"trace:{k}:{c}", a) for c, a in enumerate(v))
                stt = res[2] if generic else {"integration_transition": res[2]}
                for tk, d in stt.items():
                    for k, v in d.items():
                        allarrs.extend((f"stat:{tk}:{k}:{c}", a) for c, a in enumerate(v))
                for name, a in allarrs:
                    fn = getattr(a, "filename", None)
                    if fn is not None:
                        f = disk.files.get(str(fn))
                        rec.durable[name] = {
                            "is_memmap": isinstance(a, np.memmap),
                            "flushes": 0 if f is None else f["flushes"],
                            "durable_equal": bool(
                                f is not None
                                and f["durable"] is not None
                                and f["durable"].shape == a.shape
                                and _eq_nan(f["durable"], np.asarray(a))
                            ),
                        }
                    else:
                        rec.durable[name] = {"is_memmap": False}
                if tmpdir is not None:
                    rec.files_equal = True
                    for name, a in allarrs:
                        fn = getattr(a, "filename", None)
                        if fn is None:
                            rec.files_equal = False
                            continue
                        try:
                            loaded = np.load(fn)
                        except Exception:  # noqa: BLE001
                            rec.files_equal = False
                            continue
                        if not _eq_nan(loaded, np.asarray(a)):
                            rec.files_equal = False
            except procsim.SimAbort:
                rec.outcome = "no-return:" + str(sim.aborted if sim else "?")
            except KeyboardInterrupt as e:
                rec.outcome = "exception:KeyboardInterrupt"
                rec.error = "".join(traceback.format_exception(e))[-3000:]
            except Exception as e:  # noqa: BLE001
                rec.outcome = "exception:" + type(e).__name__
                rec.error = "".join(traceback.format_exception(e))[-3000:]
                rec.error_site = _mici_site(e)
            finally:
                if real_sc is not None:
                    ms._sample_chain = real_sc  # noqa: SLF001
                if getattr(ms.DualAveragingStepSizeAdapter, "_verif_wrapped", False):
                    ms.DualAveragingStepSizeAdapter = ms.DualAveragingStepSizeAdapter._real  # noqa: SLF001
    except procsim.SimAbort:
        rec.outcome = "no-return:" + str(sim.aborted if sim else "?")
    finally:
        RUN = None
        hooks.clear()
        if tmpdir is not None:
            shutil.rmtree(tmpdir, ignore_errors=True)
        # what the call left behind as this process's SIGINT disposition (a parent left ignoring SIGINT
        # cannot be interrupted any more); then back to the default for the next scenario
        rec.sigint_left_ignored = procsim.parent_ignores_sigint()
        _reset_sigint()
    rec.log = run
    rec.sim = sim
    rec.disk_flush_calls = disk.flush_calls
    rec.disk_files = len(disk.files)
    rec.schedule = None if sim is None else list(sim.picks)
    rec.schedule_digest = None if sim is None else sim.schedule_digest()
    rec.event_digest = None if sim is None else sim.log.digest()
    rec.assign = None if sim is None else {int(k): v for k, v in sim.assign.items()}
    rec.completion = None if sim is None else list(sim.completion)
    rec.raw = None  # do not keep memmaps alive
    return rec


def _reset_sigint():
    """Every scenario starts from Python's default SIGINT disposition (a check started from a background
    shell job inherits SIG_IGN, which would otherwise read as 'the parent ignores interrupts')."""
    import signal

    if threading.current_thread() is threading.main_thread():
        try:
            signal.signal(signal.SIGINT, signal.default_int_handler)
            return True
        except (ValueError, OSError):
            return False
    return False


def _mici_site(e):
    tb = traceback.extract_tb(e.__traceback__)
    frames = [f for f in tb if "/mici/" in f.filename]
    if not frames:
        return "?"
    f = frames[-1]
    return f"{f.filename.rsplit('/', 1)[-1]}:{f.name}"


def _eq_nan(a, b):
    a, b = np.asarray(a), np.asarray(b)
    if a.shape != b.shape:
        return False
    if a.dtype.kind in "fc" or b.dtype.kind in "fc":
        return bool(np.array_equal(a, b, equal_nan=True))
    return bool(np.array_equal(a, b))


# --------------------------------------------------------------------------------------
# helpers for oracles


def per_chain_iterations(rec, n_transitions):
    """Group ground-truth entries per chain into iterations (lists of entries).

    Returns {chain: [iteration, ...]}, iteration = list of n_transitions entries; a
    trailing partial iteration (interrupt) is returned separately in partial[chain].
    """
    by_chain = {}
    for e in rec.log.entries:
        by_chain.setdefault(e["chain"], []).append(e)
    full, partial = {}, {}
    for c, es in by_chain.items():
        # group by call so that a partial iteration at the end of an interrupted call
        # does not shift later entries
        its = []
        cur_call, buf = None, []
        part = []
        for e in es:
            if e["call"] != cur_call:
                if buf:
                    part.extend(buf)
                buf = []
                cur_call = e["call"]
            buf.append(e)
            if len(buf) == n_transitions:
                its.append(buf)
                buf = []
        if buf:
            part.extend(buf)
        full[c] = its
        partial[c] = part
    return full, partial


def outputs_digest(outputs):
    if outputs is None:
        return None
    h = hashlib.sha256()

    def upd(x):
        if x is None:
            h.update(b"None")
        elif isinstance(x, dict):
            for k in sorted(x):
                h.update(str(k).encode())
                upd(x[k])
        elif isinstance(x, (list, tuple)):
            for y in x:
                upd(y)
        else:
            a = np.ascontiguousarray(np.asarray(x))
            h.update(str(a.dtype).encode() + str(a.shape).encode() + a.tobytes())

    upd(outputs)
    return h.hexdigest()[:16]


# --------------------------------------------------------------------------------------
# scenario generation (JSON-able; everything derives from the given random.Random)


def random_scenario(rng, *, profile="mixed", run_seed=None):
    """One sample_chains configuration. rng: random.Random."""
    run_seed = rng.getrandbits(40) if run_seed is None else run_seed
    generic = rng.random() < 0.2
    scn = {"run_seed": run_seed}
    if generic:
        dim = rng.choice([1, 2, 3])
        scn["sampler"] = "generic"
        scn["system"] = {"kind": "euclid", "dim": dim, "target": zoo.quartic_from_seed(rng, dim)}
        scn["second_transition"] = rng.random() < 0.5
        scn["third_transition"] = rng.random() < 0.4
        scn["colliding_stat_keys"] = scn["third_transition"] and rng.random() < 0.5
        scn["init"] = rng.choice(["dict", "state"])
        scn["trace"] = rng.choice(["none", "empty", "pos", "two_overlap", "scalar", "tag", "three", "odd_keys", "override_dtype", "big"])
        scn["adapters"] = rng.choice([None, [], ["rwscale"], ["rwscale", "jitamount"], ["jitamount"]])
        if rng.random() < 0.3:
            scn["monitor_stats"] = {"rw": ["accepted"]}
    else:
        heavy = rng.random() < 0.25
        kinds = ("euclid", "gauss") if not heavy else ("riem_diag", "riem_scalar", "riem_softabs", "con", "gcon", "riem_dense")
        spec = zoo.random_system_spec(rng, kinds=kinds, dims=(1, 2, 3))
        scn["system"] = spec
        scn["integrator"] = zoo.random_integrator_spec(
            rng, spec["kind"], step_size=rng.choice([0.05, 0.2, 0.5, 0.9]), allow_implicit_for_tractable=rng.random() < 0.15
        )
        scn["sampler"] = rng.choice(["static", "random", "multinomial", "slice"])
        if scn["sampler"] == "static":
            scn["sampler_kwargs"] = {"n_step": rng.choice([1, 2, 3])}
        elif scn["sampler"] == "random":
            lo = rng.choice([1, 2])
            scn["sampler_kwargs"] = {"n_step_range": [lo, lo + rng.choice([1, 2, 3])]}
        else:
            scn["sampler_kwargs"] = {
                "max_tree_depth": rng.choice([1, 2, 3]),
                "do_extra_subtree_checks": rng.random() < 0.5,
                "termination_criterion": rng.choice(["euclidean", "riemannian"]),
            }
        if rng.random() < 0.2:
            scn["sampler_kwargs"]["mom_resample_coeff"] = rng.choice([0.3, 0.7, 1.0])
        scn["init"] = rng.choice(["array", "state", "state_mom"])
        scn["trace"] = rng.choice(["default", "none", "empty", "pos", "two_overlap", "scalar", "three", "odd_keys", "override_dtype", "big"] + (["tag"] if scn["init"] != "array" else []))
        metric_ok = spec["kind"] in ("euclid", "gauss", "con", "gcon")
        dual_opts = {"type": "dual", "reducer": rng.choice(["arith", "geom", "min"])}
        if rng.random() < 0.5:
            dual_opts["log_step_size_reg_target"] = rng.choice([-1.0, 0.0, 0.7])
        if rng.random() < 0.3:
            dual_opts["adapt_stat_target"] = rng.choice([0.6, 0.9])
        if rng.random() < 0.3:
            dual_opts["iter_offset"] = rng.choice([0, 3, 25])
        choices = ["default", None, [], ["dual"], [dual_opts], [dual_opts]]
        if metric_ok:
            choices += [["dual", "var"], ["dual", "cov"], ["var"], ["cov", "dual"], [dual_opts, "var"]]
        scn["adapters"] = rng.choice(choices)
        if rng.random() < 0.3:
            scn["monitor_stats"] = rng.choice([None, ["accept_stat"], ["n_step", "accept_stat"]])
    scn["n_chain"] = rng.choice([1, 2, 2, 3, 3, 4, 5, 1, 2, 2, 3, 3, 4, 5, 11])  # 11: two-digit chain indices, more chains than small thresholds
    scn["n_warm_up"] = rng.choice([0, 0, 1, 2, 3, 5, 8, 12, 20, 30]) if profile != "long_warm" else rng.choice([20, 40, 160])
    scn["n_main"] = rng.choice([0, 1, 2, 3, 5, 8])
    scn["trace_warm_up"] = rng.random() < 0.5
    st = rng.random()
    if st < 0.5:
        scn["stager"] = None
    elif st < 0.65:
        scn["stager"] = {"type": "warmup"}
    else:
        scn["stager"] = {
            "type": "windowed",
            "n_init_slow_window_iter": rng.choice([1, 2, 3, 5, 25]),
            "n_init_fast_stage_iter": rng.choice([0, 1, 2, 4, 75]),
            "n_final_fast_stage_iter": rng.choice([0, 1, 3, 50]),
            "slow_window_multiplier": rng.choice([1.0, 1.5, 2.0, 3.0]),
        }
    scn["storage"] = rng.choice(["mem", "mem", "memmap_tmp", "memmap_dir"])
    scn["n_process"] = rng.choice([1, 1, 2, 3, 4, None])
    scn["cpu_count"] = rng.choice([2, 3, 4])
    scn["bitgen"] = rng.choice(list(BITGENS))
    scn["sched"] = {
        "seed": rng.getrandbits(32),
        "policy": rng.choice(["random", "random", "random", "lowest", "highest", "roundrobin", "run_to_completion", "workers_first", "main_first"]),
        "preempt": rng.choice([0.05, 0.3, 0.7, 1.0]),
    }
    return scn


def uses_windowed_default(scn):
    ad = scn.get("adapters")
    if scn.get("stager") is not None or ad in (None, "default"):
        return False
    return any((a if isinstance(a, str) else a["type"]) in ("var", "cov") for a in ad)
