"""C18 — memoisation delivers its efficiency contract (engine E4 history simulator with counting model functions)."""

from __future__ import annotations

import copy
import warnings

import numpy as np

from engines import histsim as hs
from models import hooks, zoo
from simkit.core import digest, rng_for, violation

PROP = "C18"
LEVEL = "exploration"
RULE = (
    "seeded operation histories as for C09 (calls, copies, read-only copies, pickle round trips, assignments, in-place updates; "
    "two system objects; plain and tuple-returning derivative conventions) with every user model function wrapped by a counter: "
    "a user function must never be evaluated for a value the state already holds (from an earlier call on it, on the state it "
    "was copied from, from an auxiliary output of a derivative function, or surviving a pickle round trip for non-callable "
    "results; assignments to variables outside the dependence keep everything). Plus seeded explicit trajectories/chains "
    "through all four transition types counting gradient evaluations per position: no position created by an integrator step "
    "is evaluated twice, and n leapfrog steps from a fresh state cost n+1 evaluations ((S)(n)+1 for S-stage compositions). "
    "distinct_nontrivial = distinct (system class, convention, op multiset, #free calls>0) histories plus distinct trajectory configurations."
)
ASSUMPTIONS = [
    "evaluations made inside flows / steps / transitions issued by the machine are not judged by the per-state model (only by the per-position trajectory oracle)",
    "the hand-built start position of a chain is exempt from 'at most once' (its gradient is computed inside the copy made by step())",
    "pickling legitimately drops cached callables (vjp / mtp / mhp products)",
]
REAL_VS_STUB = "real: mici ChainState, cache decorators, systems, integrators, transitions; stub: none (user model functions count their evaluations)"
WALL_CAP_S = {"quick": 300, "thorough": 3000}
MIN_EVALUATIONS = {"quick": 500, "thorough": 5000}
N = {"quick": 1200, "thorough": 40000}
HIST_PER_SCN = 10


def scenarios(tier, seed):
    out = []
    kinds = list(zoo.SYSTEM_KINDS)
    for i in range(N[tier]):
        rng = rng_for(seed, PROP, i)
        kind = kinds[i % len(kinds)]
        spec = zoo.random_system_spec(rng, kinds=(kind,), dims=(2, 3))
        spec2 = hs.second_spec(spec, rng)
        ispec = zoo.random_integrator_spec(rng, kind, step_size=rng.choice([0.05, 0.2]), allow_implicit_for_tractable=False)
        out.append({"spec": spec, "spec2": spec2, "integrator": ispec, "hist_seed": rng.getrandbits(40), "n_hist": HIST_PER_SCN,
                    "traj": {"transition": rng.choice(["steps", "static", "random", "multinomial", "slice"]), "n": rng.choice([1, 2, 3, 5, 9]),
                             "n_iter": rng.choice([1, 2, 4]), "seed": rng.getrandbits(32), "mom_coeff": rng.choice([1.0, 1.0, 0.5])}})
    return out


def run_history(scn, ops):
    counter = hs.Counter()
    hooks.install(counter.handler)
    try:
        m = hs.Machine(scn["spec"], scn["spec2"], scn["integrator"], check_values=False, counter=counter)
        m.run(ops)
    finally:
        hooks.clear()
    return m, counter


def trajectory_check(scn, stats):
    """(c): per-position gradient counts along explicit trajectories / chains."""
    import mici
    from mici.states import ChainState
    import random as _random

    spec = scn["spec"]
    if spec["kind"] not in ("euclid", "gauss"):
        return None
    t = scn["traj"]
    counter = hs.Counter()
    hooks.install(counter.handler)
    try:
        system, _ = zoo.build_system(spec, hooked=True)
        integ = zoo.build_integrator(system, scn["integrator"])
        r = _random.Random(t["seed"])
        pos = np.array(zoo.start_position(spec, r, 0), dtype=float)
        rng = np.random.default_rng(t["seed"])
        state = ChainState(pos=pos.copy(), mom=None, dir=1)
        state.mom = system.sample_momentum(state, rng)
        start_key = pos.tobytes()
        T = mici.transitions
        n_steps_done = 0
        if t["transition"] == "steps":
            s = state
            for _ in range(t["n"]):
                s = integ.step(s)
                n_steps_done += 1
            # exact count for a fresh-state trajectory
            ispec = scn["integrator"]
            if ispec["type"] == "leapfrog":
                per_step, initial = 1, 1
            elif ispec["type"] in ("bcss2", "bcss3", "bcss4"):
                per_step, initial = {"bcss2": 2, "bcss3": 3, "bcss4": 4}[ispec["type"]], 1
            else:
                nf = len(ispec["free_coefficients"])
                per_step, initial = nf + 1, (1 if ispec.get("initial_h1_flow_step", True) else 0)
            want = per_step * t["n"] + initial
            got = counter.calls.get("grad_neg_log_dens", 0)
            stats["exact_count_checks"] = stats.get("exact_count_checks", 0) + 1
            if got != want:
                return violation("gradient-count", f"{PROP} gradient-count:{ispec['type']}",
                                 f"{t['n']} steps of {type(integ).__name__} from a fresh state evaluated the gradient {got} times, expected {want}")
        else:
            if t["transition"] == "static":
                trans = T.MetropolisStaticIntegrationTransition(system, integ, n_step=t["n"])
            elif t["transition"] == "random":
                trans = T.MetropolisRandomIntegrationTransition(system, integ, n_step_range=(1, t["n"] + 1))
            elif t["transition"] == "multinomial":
                trans = T.MultinomialDynamicIntegrationTransition(system, integ, max_tree_depth=min(4, t["n"]))
            else:
                trans = T.SliceDynamicIntegrationTransition(system, integ, max_tree_depth=min(4, t["n"]))
            momt = T.CorrelatedMomentumTransition(system, t["mom_coeff"]) if t["mom_coeff"] != 1.0 else T.IndependentMomentumTransition(system)
            for _ in range(t["n_iter"]):
                state, _ = momt.sample(state, rng)
                state, st = trans.sample(state, rng)
                n_steps_done += st["n_step"]
        stats["trajectory_runs"] = stats.get("trajectory_runs", 0) + 1
        stats["trajectory_steps"] = stats.get("trajectory_steps", 0) + n_steps_done
        for (name, pb), c in counter.by_pos.items():
            if name == "grad_neg_log_dens" and c > 1 and pb != start_key:
                q = np.frombuffer(pb, dtype=float)
                return violation("gradient-twice", f"{PROP} gradient-twice:{t['transition']}",
                                 f"gradient evaluated {c} times at position {q.tolist()} created by an integrator step ({t['transition']}, {type(integ).__name__}, {n_steps_done} steps)")
        if spec.get("tuple_conv"):
            # the gradient function also returns the density value: once the gradient has been evaluated at a
            # step-created position, the density function must not be called there
            grad_seen = set()
            for name, pb in counter.pos_events:
                if name == "grad_neg_log_dens":
                    grad_seen.add(pb)
                elif name == "neg_log_dens" and pb in grad_seen and pb != start_key:
                    q = np.frombuffer(pb, dtype=float)
                    return violation("density-recomputed", f"{PROP} density-recomputed:{t['transition']}",
                                     f"density function called at {q.tolist()} although the gradient function, which also returns the density value, had already been evaluated there")
    finally:
        hooks.clear()
    return None


def run_scenario(scn):
    warnings.simplefilter("ignore")
    np.seterr(all="ignore")
    stats = {"histories": 0, "ops": 0, "free_calls": 0, "model_evaluations": 0, "op_counts": {}, "trajectory_runs": 0}
    keys, viols = [], []
    if scn.get("ops") is not None:
        histories = [scn["ops"]]
    else:
        histories = []
        for h in range(scn["n_hist"]):
            rng = rng_for(scn["hist_seed"], "hist", h)
            histories.append(hs.gen_ops(rng, scn["spec"], rng.choice([6, 12, 20, 30])))
    sample = None
    for ops in histories:
        m, counter = run_history(scn, ops)
        stats["histories"] += 1
        stats["ops"] += m.ops_done
        stats["free_calls"] += m.free_calls
        stats["model_evaluations"] += counter.total
        for k, v in m.op_counts.items():
            stats["op_counts"][k] = stats["op_counts"].get(k, 0) + v
        if sample is None:
            sample = {"system": scn["spec"]["kind"], "tuple_conv": scn["spec"].get("tuple_conv"), "ops": ops[:12], "free_calls": m.free_calls, "evaluations": counter.total}
        bad = [v for v in m.violations if v["cls"] == "recomputed"]
        if bad:
            v = dict(bad[0])
            v["sig"] = f"{PROP} {v['sig']}"
            v["detail"] = {"ops": ops}
            viols.append(v)
            break
        if m.free_calls > 0 and len(m.states) >= 2:
            keys.append(digest([scn["spec"]["kind"], scn["spec"].get("tuple_conv"), sorted(m.op_counts.items()), len(ops)]))
    if not viols and scn.get("ops") is None:
        v = trajectory_check(scn, stats)
        if v:
            viols.append(v)
        elif scn["spec"]["kind"] in ("euclid", "gauss"):
            keys.append(digest(["traj", scn["spec"]["kind"], scn["integrator"]["type"], scn["traj"]["transition"], scn["traj"]["n"], scn["spec"].get("tuple_conv")]))
    return {"violations": viols, "stats": stats, "keys": keys, "sample": sample, "evaluations": stats["histories"] + stats["trajectory_runs"]}


def minimise(scn, viol, still_fails):
    ops = (viol.get("detail") or {}).get("ops")
    if not ops:
        return scn
    cur = copy.deepcopy(scn)
    cur["ops"] = ops
    if not still_fails(cur):
        return scn

    def fails(cand_ops):
        c = copy.deepcopy(cur)
        c["ops"] = cand_ops
        return bool(still_fails(c))

    cur["ops"] = hs.ddmin(ops, fails)
    return cur
