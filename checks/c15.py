"""C15 — interrupting sampling returns a consistent prefix of the run (engine E2, crash-point enumeration)."""

from __future__ import annotations

import copy
import warnings

import numpy as np

from engines import chainoracle as orc
from engines import chainsim
from engines.chainsim import _eq_nan
from simkit.core import digest, rng_for, violation

PROP = "C15"
LEVEL = "fault_enumeration"
RULE = (
    "seeded small sample_chains configurations; the uninterrupted run R counts the M user-callback calls made "
    "inside iterations (trace functions, density, gradient, constraint, Jacobian, metric functions); then one run per "
    "crash point k (all k<=M when M is small, a seeded subset otherwise) raises KeyboardInterrupt in callback call k "
    "(mode single: that task only; mode broadcast: every simulated worker at its next in-iteration callback and the "
    "parent at its next scheduling point). Oracle: normal return, rows == R for completed iterations, fill beyond, "
    "R-or-fill for the iteration in progress, later stages untouched, final states == last logged states, durable "
    "image == returned arrays. distinct_nontrivial = distinct (configuration, crash point site class, stage, chain) tuples."
)
ASSUMPTIONS = [
    "interrupts are injected at user callbacks inside iterations only (the property's quantifier); interrupts during adapter initialisation or between chains are outside it",
    "broadcast delivery to a worker is deferred to its next in-iteration callback",
    "simulated workers are threads separated by pickle round trips",
]
REAL_VS_STUB = "real: all of mici incl. _ignore_sigint_manager / _pool_context_manager; stub: multiprocessing.Pool and SyncManager classes (simulated workers, queues, scheduler), SIGINT delivery (KeyboardInterrupt raised from a user callback, dropped when the target process ignores SIGINT: parent = real disposition, workers inherit at pool creation), durability boundary"
WALL_CAP_S = {"quick": 400, "thorough": 3300}
MIN_EVALUATIONS = {"quick": 300, "thorough": 3000}
N = {"quick": 48, "thorough": 1600}
K_MAX = {"quick": 60, "thorough": 120}


def scenarios(tier, seed):
    out = []
    for i in range(N[tier]):
        rng = rng_for(seed, PROP, i)
        scn = chainsim.random_scenario(rng)
        scn["n_chain"] = rng.choice([1, 2, 2, 3, 3])
        scn["n_warm_up"] = rng.choice([0, 0, 2, 3, 4, 6])
        scn["n_main"] = rng.choice([0, 1, 2, 3, 4]) if scn["n_warm_up"] else rng.choice([1, 2, 3, 4])
        if scn["sampler"] in ("multinomial", "slice"):
            scn["sampler_kwargs"]["max_tree_depth"] = rng.choice([1, 2])
        scn["n_process"] = rng.choice([1, 1, 2, 3])
        if scn.get("trace") in ("none", "empty") and rng.random() < 0.6:
            scn["trace"] = "pos"
        scn["interrupt_mode"] = "single" if scn["n_process"] == 1 else rng.choice(["single", "broadcast"])
        scn["k_seed"] = rng.getrandbits(32)
        scn["k_max"] = K_MAX[tier]
        out.append(scn)
    return out


def fill_of(arr, declared=None):
    if declared is not None:
        return np.asarray(declared).astype(arr.dtype)
    return np.asarray(np.nan if np.issubdtype(arr.dtype, np.inexact) else 0).astype(arr.dtype)


def _isfill(x, f):
    x = np.asarray(x)
    if f.dtype.kind == "f" and np.all(np.isnan(f)):
        return bool(np.all(np.isnan(x)))
    return bool(np.all(x == f))


def judge_interrupted(R, I, k):
    """Compare interrupted run I (crash point k) with the uninterrupted run R."""
    v = []
    scn = I.scn
    fired = I.log.interrupt_fired
    dropped = getattr(I.log, "interrupt_dropped", [])
    if dropped:
        # the operating-system model: a SIGINT aimed at a process whose disposition is "ignore" never arrives
        who = sorted({d[0] for d in dropped})
        return [violation("interrupt-ignored", f"{PROP} interrupt-ignored:{'parent' if any(w == 'MainThread' or w.startswith('main') for w in who) else 'worker'}",
                          f"crash point {k} ({dropped[0][2]}): the interrupt aimed at {who} was dropped because sample_chains had set that process's SIGINT "
                          f"disposition to 'ignore' (left ignoring after the call: {getattr(I, 'sigint_left_ignored', None)}); sampling cannot be interrupted", k=k)]
    if not fired:
        return [violation("harness", f"{PROP} harness-interrupt-not-fired", f"crash point {k} never fired")]
    if I.outcome != "returned":
        site = I.error_site or "?"
        v.append(violation("no-normal-return", f"{PROP} {I.outcome}@{site}",
                           f"interrupt at in-iteration callback {k} ({fired[0][2]}): sample_chains did not return normally: {I.outcome}\n{(I.error or '')[-900:]}",
                           k=k))
        return v
    keys = orc.transition_keys(I)
    T = len(keys)
    full, partial = chainsim.per_chain_iterations(I, T)
    st = orc.stat_types(I)
    n_chain = scn["n_chain"]
    Rn = orc.n_rows(scn)
    interrupted_chains = {}
    for task, _idx, name in fired:
        # chain the task was working on when interrupted = chain of that task's last _sample_chain call before
        calls = [c for c in I.log.calls if c["task"] == task and c["outcome"] == "KeyboardInterrupt"]
        for c in calls:
            interrupted_chains[c["chain"]] = name
    if not interrupted_chains:
        v.append(violation("interrupt-lost", f"{PROP} interrupt-lost", f"KeyboardInterrupt raised at callback {k} but no _sample_chain call reported it", k=k))
        return v
    # stage bookkeeping: number of _sample_chain calls per chain
    ncalls = {}
    for c in I.log.calls:
        ncalls[c["chain"]] = ncalls.get(c["chain"], 0) + 1
    stage_int = max(ncalls[c] for c in interrupted_chains) - 1
    if max(ncalls.values()) - 1 > stage_int:
        v.append(violation("later-stage-started", f"{PROP} later-stage-started",
                           f"a chain started stage {max(ncalls.values()) - 1} after the interrupt in stage {stage_int}", k=k))
        return v
    # per chain: index of the iteration in progress (None if the chain completed everything it started)
    done_iters = {}
    for c in range(n_chain):
        n_full = len(full.get(c, []))
        if c in interrupted_chains:
            in_trace = interrupted_chains[c].startswith("trace:")
            done_iters[c] = (n_full - 1 if in_trace else n_full, True)
        else:
            done_iters[c] = (n_full, False)
    out_i, out_r = I.outputs, R.outputs
    # values an earlier trace function legitimately wrote for a key that a later one overrides
    partial_ok = {}
    tset = scn.get("trace", "pos")
    if tset not in ("default", "none", "empty"):
        for c in interrupted_chains:
            n_done, _ = done_iters[c]
            its = full.get(c, [])
            if n_done < len(its):
                snap = its[n_done][-1]["state"]
                with chainsim.paused():
                    class _S:
                        pass
                    s_ = _S()
                    for kk, vv in snap.items():
                        setattr(s_, kk, vv)
                    for f in chainsim.TRACE_SETS[tset]:
                        for key, val in f(s_).items():
                            partial_ok.setdefault((key, c), []).append(val)

    def rows_check(kind, name, arr_i, arr_r, c, fill):
        n_done, in_prog = done_iters[c]
        for i in range(scn["n_warm_up"] + scn["n_main"]):
            r = orc.row_of(scn, i)
            if r is None:
                continue
            a, b = arr_i[r], arr_r[r]
            if i < n_done:
                if not _eq_nan(a, b):
                    return f"{kind} {name} chain {c} row {r} (iteration {i}, completed before the interrupt) = {np.asarray(a).tolist()} but uninterrupted run has {np.asarray(b).tolist()}"
            elif i == n_done and in_prog:
                if not (_eq_nan(a, b) or _isfill(a, fill) or any(_eq_nan(a, np.asarray(x).astype(arr_i.dtype)) for x in partial_ok.get((name, c), []))):
                    return f"{kind} {name} chain {c} row {r} (iteration in progress) = {np.asarray(a).tolist()} is neither the uninterrupted value nor the fill value"
            else:
                if not _isfill(a, fill):
                    return f"{kind} {name} chain {c} row {r} (iteration {i}, not reached) = {np.asarray(a).tolist()} is not the fill value"
        return None

    if (out_i["traces"] is None) != (out_r["traces"] is None):
        v.append(violation("traces-none", f"{PROP} traces-none", "traces None-ness differs from uninterrupted run", k=k))
        return v
    if out_i["traces"] is not None:
        for key in sorted(out_r["traces"]):
            if key not in out_i["traces"] or len(out_i["traces"][key]) != n_chain:
                v.append(violation("trace-shape", f"{PROP} trace-shape", f"trace {key} missing / wrong chain count", k=k))
                return v
            for c in range(n_chain):
                ai, ar = out_i["traces"][key][c], out_r["traces"][key][c]
                if ai.shape != ar.shape or ai.dtype != ar.dtype:
                    v.append(violation("trace-shape", f"{PROP} trace-shape", f"trace {key} chain {c} shape/dtype differs", k=k))
                    return v
                if Rn == 0:
                    continue
                msg = rows_check("trace", key, ai, ar, c, fill_of(ai))
                if msg:
                    v.append(violation("prefix", f"{PROP} prefix-trace", f"interrupt at callback {k} ({fired[0][2]}): {msg}", k=k))
                    return v
    for tk in sorted(out_r["stats"]):
        for sk in sorted(out_r["stats"][tk]):
            declared = st[tk][sk][1]
            for c in range(n_chain):
                ai, ar = out_i["stats"][tk][sk][c], out_r["stats"][tk][sk][c]
                if ai.shape != ar.shape or ai.dtype != ar.dtype:
                    v.append(violation("stats-shape", f"{PROP} stats-shape", f"stat {tk}.{sk} chain {c} shape/dtype differs", k=k))
                    return v
                if Rn == 0:
                    continue
                msg = rows_check("stat", f"{tk}.{sk}", ai, ar, c, fill_of(ai, declared))
                if msg:
                    v.append(violation("prefix", f"{PROP} prefix-stat", f"interrupt at callback {k} ({fired[0][2]}): {msg}", k=k))
                    return v
    # final states: one per chain whose _sample_chain call in the interrupted stage returned outputs, in chain order
    started = sorted(
        c["chain"] for idx, c in enumerate(I.log.calls)
        if c["outcome"] in ("ok", "KeyboardInterrupt") and _stage_of_call(I, idx) == stage_int
    )
    fs = out_i["final_states"]
    if len(fs) != len(started):
        v.append(violation("final-states-count", f"{PROP} final-states-count",
                           f"{len(fs)} final states returned but chains {started} ran in the interrupted stage", k=k))
        return v
    last_entry = {}
    for idx, e in enumerate(I.log.entries):
        last_entry[e["chain"]] = (idx, e)
    for j, c in enumerate(started):
        got = fs[j]
        if c in last_entry:
            idx, e = last_entry[c]
            want = e["state"]
        else:
            idx, want = -1, I.init_states[c]
        for var in ("pos", "tag", "mom"):
            if var not in want or want[var] is None:
                continue
            if var == "mom" and any(a["ev"] == "finalize" and any(a.get("mom_changed", [])) and a["seq"] > idx for a in I.log.adapter):
                continue
            if var not in got or got[var] is None or not _eq_nan(got[var], want[var]):
                v.append(violation("final-state", f"{PROP} final-state",
                                   f"interrupt at callback {k}: final_states[{j}].{var} (chain {c}) = {None if got.get(var) is None else np.asarray(got[var]).tolist()} "
                                   f"but the last state that chain reached has {np.asarray(want[var]).tolist()}", k=k))
                return v
        for var in ("pos", "mom"):
            if got.get(var) is not None and not np.all(np.isfinite(got[var])) and want.get(var) is not None and np.all(np.isfinite(want[var])):
                v.append(violation("final-state-nonfinite", f"{PROP} final-state-nonfinite", f"final state {j} has non-finite {var}", k=k))
                return v
        if "dir" in got and got["dir"] not in (1, -1):
            v.append(violation("final-state", f"{PROP} final-state-dir", f"final state {j} has dir={got['dir']!r}", k=k))
            return v
    v.extend(orc.check_durability(I, PROP))
    return v


def _stage_of_call(rec, call_idx):
    c = rec.log.calls[call_idx]["chain"]
    return sum(1 for x in rec.log.calls[:call_idx] if x["chain"] == c)


def run_scenario(scn):
    warnings.simplefilter("ignore")
    np.seterr(all="ignore")
    stats = {"runs": 0, "interrupted_runs": 0, "discarded": {}, "outcomes": {}, "faults_fired": {"KeyboardInterrupt": 0},
             "site": {}, "sched_steps": 0, "parallel_runs": 0, "callbacks_in_R": 0, "modes": {}}
    keys, viols = [], []
    base = copy.deepcopy(scn)
    base["interrupt"] = None
    R = chainsim.run_scenario_raw(base)
    stats["runs"] += 1
    sample = {"sampler": scn["sampler"], "n_chain": scn["n_chain"], "n_warm_up": scn["n_warm_up"], "n_main": scn["n_main"],
              "adapters": scn.get("adapters"), "n_process": scn["n_process"], "storage": scn.get("storage"), "mode": scn["interrupt_mode"]}
    disc = orc.documented_discard(R)
    if disc or R.outcome != "returned":
        stats["discarded"][disc or R.outcome] = 1
        return {"violations": [], "stats": stats, "keys": keys, "sample": sample, "evaluations": 0}
    M = R.log.callbacks
    stats["callbacks_in_R"] = M
    sample["callbacks"] = M
    if M == 0:
        stats["discarded"]["no-callbacks"] = 1
        return {"violations": [], "stats": stats, "keys": keys, "sample": sample, "evaluations": 0}
    if scn.get("ks") is not None:
        ks = list(scn["ks"])
    elif M <= scn["k_max"]:
        ks = list(range(1, M + 1))
    else:
        r = rng_for(scn["k_seed"], "ks")
        ks = sorted(set(r.sample(range(1, M + 1), scn["k_max"] - 4)) | {1, 2, M - 1, M})
    sample["crash_points"] = len(ks)
    cfg = digest({k: v for k, v in scn.items() if k not in ("sched", "ks")})
    for k in ks:
        s = copy.deepcopy(base)
        s["interrupt"] = {"at": k, "mode": scn["interrupt_mode"]}
        I = chainsim.run_scenario_raw(s)
        stats["runs"] += 1
        stats["interrupted_runs"] += 1
        stats["modes"][scn["interrupt_mode"]] = stats["modes"].get(scn["interrupt_mode"], 0) + 1
        stats["faults_fired"]["KeyboardInterrupt"] += len(I.log.interrupt_fired)
        stats["outcomes"][I.outcome] = stats["outcomes"].get(I.outcome, 0) + 1
        if I.sim is not None:
            stats["parallel_runs"] += 1
            stats["sched_steps"] += I.sim.steps
        if I.log.interrupt_fired:
            name = I.log.interrupt_fired[0][2]
            stats["site"][name] = stats["site"].get(name, 0) + 1
            ic = [c for c in I.log.calls if c["outcome"] == "KeyboardInterrupt"]
            keys.append(digest([cfg, name, ic[0]["chain"] if ic else None, _stage_of_call(I, I.log.calls.index(ic[0])) if ic else None]))
        if orc.documented_discard(I):
            stats["discarded"]["adaptation-error"] = stats["discarded"].get("adaptation-error", 0) + 1
            continue
        vs = judge_interrupted(R, I, k)
        if vs:
            viols.extend(vs)
            break
    return {"violations": viols, "stats": stats, "keys": keys, "sample": sample, "evaluations": stats["interrupted_runs"]}


def minimise(scn, viol, still_fails):
    cur = copy.deepcopy(scn)
    k = viol.get("detail", {}).get("k")
    if k is not None:
        cand = copy.deepcopy(cur)
        cand["ks"] = [k]
        if still_fails(cand):
            cur = cand

    def try_set(key, val):
        nonlocal cur
        if cur.get(key) == val:
            return
        cand = copy.deepcopy(cur)
        cand[key] = val
        cand["ks"] = None  # crash-point indices shift when the configuration changes
        if still_fails(cand):
            cur = cand

    for key, vals in (("n_chain", [1, 2]), ("n_warm_up", [0, 2]), ("n_main", [1, 2]), ("stager", [None]), ("adapters", [[]]),
                      ("trace", ["pos"]), ("storage", ["mem"]), ("bitgen", ["PCG64"]), ("n_process", [1]), ("interrupt_mode", ["single"])):
        for val in vals:
            try_set(key, val)
    if cur.get("ks") is None:
        res = still_fails(cur)
        if res and res.get("detail", {}).get("k") is not None:
            cand = copy.deepcopy(cur)
            cand["ks"] = [res["detail"]["k"]]
            if still_fails(cand):
                cur = cand
    return cur
