"""C01 — integration transitions leave the canonical distribution invariant (engine E1)."""

from __future__ import annotations

import copy
import math
import warnings

import numpy as np

from engines import drawtree as dt
from models import zoo
from simkit.core import digest, rng_for, violation

PROP = "C01"
LEVEL = "exploration"
RULE = (
    "seeded scenarios (system incl. Euclidean with 8 metric types, Gaussian-split, Riemannian with implicit integrators, "
    "constrained; integrator; step size from tiny to beyond stability; energy offset up to 1e5; transition type and settings: "
    "n_step, n_step_range, max_tree_depth 1-3(4), termination criterion euclidean/riemannian/pseudo-random, extra sub-tree "
    "checks, slice divergence threshold). Inside one scenario EVERY outcome of the transition's random draws is enumerated "
    "with its exact probability by a scripted generator, for every start state in a window of an integrator orbit; oracle: "
    "sum_start w*P(start->end) = w(end), row sums 1, per-path n_step == observed integrator steps and accept_stat == mean "
    "Metropolis acceptance probability of the visited states. distinct_nontrivial = scenarios with >=2 distinct reachable end "
    "states and >=8 decision paths, distinct by (system kind, metric, integrator, transition, settings) digest."
)
ASSUMPTIONS = [
    "orbit states are identified by nearest neighbour (1e-9 explicit, 1e-6 implicit/constrained, relative to state scale); scenarios with orbit points closer than 1e-5 or a criterion margin below 1e-9 are discarded (counted)",
    "tolerance rho*w_j + 1e-12*max local weight, rho = 1e-9 explicit / 1e-6 implicit (selection probabilities below 1e-16 round to 0 in float64)",
    "multinomial divergence threshold is kept inactive (relative to the start state; the property claims exactness for the slice-shared threshold only)",
    "trajectories cut by integrator errors are probes: scenarios where any step fails are counted and not judged",
]
REAL_VS_STUB = "real: mici transitions, integrators, systems, LogRepFloat; stub: the random generator (scripted decision points with exact probabilities)"
WALL_CAP_S = {"quick": 400, "thorough": 3300}
TASK_TIMEOUT_S = {"quick": 300, "thorough": 900}
MIN_EVALUATIONS = {"quick": 20, "thorough": 200}
N = {"quick": 128, "thorough": 1500}
PATH_CAP = {"quick": 60_000, "thorough": 200_000}
# deterministic work budget per scenario: decisions taken over all enumerated paths plus model-function calls made
# (implicit / constrained steps run iterative solves: up to ~90 calls per decision); both cost ~0.1-0.2 ms.
# None = no budget beyond PATH_CAP
WORK_CAP = {"quick": None, "thorough": 700_000}


def pseudo_criterion(system, s1, s2, sum_mom):  # noqa: ARG001
    """Deterministic smooth function of the two edge states and the momentum sum."""
    val = math.sin(3.1 * float(np.sum(s1.pos)) + 2.3 * float(np.sum(s2.pos)) + 1.7 * float(np.sum(sum_mom)))
    pseudo_criterion.margins.append(abs(val - 0.35))
    return val > 0.35


pseudo_criterion.margins = []


class MarginCriterion:
    """Wraps a real criterion, records |dot product| margins so fragile scenarios can be discarded."""

    def __init__(self, name):
        self.name = name
        self.margins = []

    def __call__(self, system, s1, s2, sum_mom):
        import mici

        if self.name == "euclidean":
            a = float(np.sum(system.dh_dmom(s1) * (s2.pos - s1.pos)))
            b = float(np.sum(system.dh_dmom(s2) * (s2.pos - s1.pos)))
            self.margins.append(min(abs(a), abs(b)))
            return mici.transitions.euclidean_no_u_turn_criterion(system, s1, s2, sum_mom)
        if self.name == "riemannian":
            a = float(np.sum(system.dh_dmom(s1) * sum_mom))
            b = float(np.sum(system.dh_dmom(s2) * sum_mom))
            self.margins.append(min(abs(a), abs(b)))
            return mici.transitions.riemannian_no_u_turn_criterion(system, s1, s2, sum_mom)
        val = math.sin(3.1 * float(np.sum(s1.pos)) + 2.3 * float(np.sum(s2.pos)) + 1.7 * float(np.sum(sum_mom)))
        self.margins.append(abs(val - 0.35))
        return val > 0.35


def scenarios(tier, seed):
    out = []
    for i in range(N[tier]):
        rng = rng_for(seed, PROP, i)
        if i % 16 == 15:
            out.append(_deep_scenario(rng))
            continue
        heavy = rng.random() < (0.25 if tier == "quick" else 0.35)
        if heavy:
            kinds = ("riem_scalar", "riem_diag", "riem_dense", "riem_chol", "riem_softabs", "con", "gcon")
        else:
            kinds = ("euclid", "euclid", "gauss")
        offset = rng.choice([0.0, 0.0, 50.0, 800.0, 1e5, -1e4])
        scale = rng.choice([1.0, 1.0, 0.3, 4.0])
        steep = (not heavy) and rng.random() < 0.2  # neighbouring orbit states whose energies differ by tens to hundreds
        if steep:
            scale = rng.choice([300.0, 1000.0])
        spec = zoo.random_system_spec(rng, kinds=kinds, dims=(1, 2, 2, 3), offset=offset, scale=scale)
        implicit_ok = rng.random() < 0.2
        ispec = zoo.random_integrator_spec(rng, spec["kind"], allow_implicit_for_tractable=implicit_ok)
        ispec["step_size"] = rng.choice([0.01, 0.1, 0.3, 0.5, 0.8, 1.2]) if not heavy else rng.choice([0.05, 0.15, 0.3, 0.5])
        if steep:
            # quadratic target, leapfrog step just inside the stability limit: the energy error oscillates with an
            # amplitude of several times the (large) energy, so neighbouring states differ by tens to hundreds
            spec["target"]["b"] = 0.0
            ispec = {"type": "leapfrog", "step_size": None}
            try:
                sys_, _ = zoo.build_system(spec)
                lam = float(np.max(np.abs(np.linalg.eigvals(np.asarray(sys_.metric.inv @ np.array(spec["target"]["A"]))))))
            except Exception:  # noqa: BLE001
                lam = 1.0
            ispec["step_size"] = rng.choice([1.8, 1.95, 1.98]) / math.sqrt(scale * max(lam, 1e-12))
        trans = rng.choice(["static", "random", "multinomial", "multinomial", "slice", "slice"])
        if steep and rng.random() < 0.6:
            trans = "multinomial"
        ts = {"type": trans}
        if trans == "static":
            ts["n_step"] = rng.choice([1, 2, 3, 5])
        elif trans == "random":
            lo = rng.choice([1, 2, 3])
            ts["n_step_range"] = [lo, lo + rng.choice([1, 2, 4])]
        else:
            maxd = 3 if tier == "quick" else 4
            ts["max_tree_depth"] = rng.choice([1, 2, 2, 3] if tier == "quick" else [1, 2, 3, 3, maxd])
            if heavy:
                ts["max_tree_depth"] = min(ts["max_tree_depth"], 2 if tier == "quick" else 3)
            ts["criterion"] = rng.choice(["euclidean", "riemannian", "pseudo"])
            ts["do_extra_subtree_checks"] = rng.random() < 0.5
            if trans == "slice":
                ts["max_delta_h"] = rng.choice([1000.0, 1000.0, 2.0, 0.7, 0.2, 0.05])
                if ts["max_delta_h"] < 1 and not heavy:
                    ispec["step_size"] = rng.choice([0.5, 0.8, 1.2, 1.6])
            else:
                ts["max_delta_h"] = 1e9
        boundary = None
        if rng.random() < 0.3:
            # integrator errors part-way through trajectories (symmetric under reversal, see BoundaryIntegrator)
            boundary = {"k": rng.choice([0, 1, 2, 3]), "error": rng.choice(["ConvergenceError", "NonReversibleStepError"])}
        out.append({
            "boundary": boundary,
            "system": spec, "integrator": ispec, "transition": ts, "window": rng.choice([2, 3, 4]),
            "start_seed": rng.getrandbits(40), "path_cap": PATH_CAP[tier], "work_cap": WORK_CAP[tier],
        })
    return out


def _deep_scenario(rng):
    """Deep-tree family: trajectories of 2^7 .. 2^8 states (exact enumeration is out of reach there), run with a real
    seeded generator and judged by deterministic invariants only."""
    dim = rng.choice([1, 2, 3])
    spec = {"kind": "euclid", "dim": dim, "tuple_conv": False, "metric": {"type": rng.choice(["identity", "diag"])},
            "target": zoo.quartic_from_seed(rng, dim)}
    if spec["metric"]["type"] == "diag":
        spec["metric"] = zoo.random_metric_spec(rng, dim, ("diag",))
    spec["target"]["b"] = 0.0
    return {"family": "deep", "system": spec, "integrator": {"type": "leapfrog", "step_size": rng.choice([0.002, 0.005, 0.01])},
            "transition": {"type": rng.choice(["slice", "slice", "multinomial"]), "max_tree_depth": rng.choice([7, 8]),
                           "do_extra_subtree_checks": rng.random() < 0.5, "max_delta_h": 1000.0},
            "n_transitions": 10, "start_seed": rng.getrandbits(40)}


class _RecordingRng:
    """Real numpy generator that remembers what it returned (only the methods transitions use)."""

    def __init__(self, g):
        self.g, self.uniforms = g, []

    def uniform(self, *a, **k):
        u = self.g.uniform(*a, **k)
        self.uniforms.append(u)
        return u

    def integers(self, *a, **k):
        return self.g.integers(*a, **k)

    def __getattr__(self, name):
        return getattr(self.g, name)


def _never(system, s1, s2, sum_mom):  # noqa: ARG001
    return False


def deep_tree_invariants(scn):
    import mici
    from mici.states import ChainState

    warnings.simplefilter("ignore")
    np.seterr(all="ignore")
    spec, ts = scn["system"], scn["transition"]
    stats = {"scenarios": 1, "deep_scenarios": 1, "deep_transitions": 0, "deep_all_in_slice": 0, "deep_states": 0, "discarded": {}}
    res = {"violations": [], "stats": stats, "keys": [], "evaluations": 1,
           "sample": {"family": "deep", "system": spec["kind"], "transition": ts, "integrator": scn["integrator"]}}
    system, _ = zoo.build_system(spec)
    integ = dt.CountingIntegrator(zoo.build_integrator(system, scn["integrator"]))
    T = mici.transitions
    cls = T.MultinomialDynamicIntegrationTransition if ts["type"] == "multinomial" else T.SliceDynamicIntegrationTransition
    trans = cls(system, integ, max_tree_depth=ts["max_tree_depth"], max_delta_h=ts["max_delta_h"], termination_criterion=_never,
                do_extra_subtree_checks=ts["do_extra_subtree_checks"])
    g = np.random.default_rng(scn["start_seed"])
    r = rng_for(scn["start_seed"], "start")
    state = ChainState(pos=np.array(zoo.start_position(spec, r, 0), dtype=float), mom=None, dir=1)
    full = 2 ** ts["max_tree_depth"] - 1
    for it in range(scn["n_transitions"]):
        state.mom = system.sample_momentum(state, g)
        h_init = float(system.h(state))
        rec = _RecordingRng(g)
        integ.reset()
        out, st = trans.sample(state, rec)
        outs = list(integ.outputs)
        stats["deep_transitions"] += 1
        stats["deep_states"] += len(outs) + 1
        where = f"{ts['type']} transition {it} (depth {ts['max_tree_depth']}, step {scn['integrator']['step_size']})"
        if integ.errors or st.get("diverging"):
            stats["discarded"]["deep-error"] = stats["discarded"].get("deep-error", 0) + 1
            state = out
            continue
        if st["n_step"] != len(outs) or len(outs) != full:
            res["violations"].append(violation("deep-n-step", f"{PROP} deep-n-step:{ts['type']}", f"{where}: n_step={st['n_step']}, {len(outs)} integrator steps, a tree that never terminates early has {full}"))
            return res
        for k_ in ("accept_stat", "reject_prob", "av_metrop_accept_prob"):
            v_ = float(st[k_])
            if not (0.0 <= v_ <= 1.0 + 1e-12):
                res["violations"].append(violation("deep-stat-range", f"{PROP} deep-stat-range:{ts['type']}:{k_}", f"{where}: statistic {k_} = {v_} outside [0, 1]"))
                return res
        member = [k for k, o in enumerate(outs) if np.array_equal(o.pos, out.pos) and np.array_equal(o.mom, out.mom)]
        is_start = np.array_equal(out.pos, state.pos) and np.array_equal(out.mom, state.mom)
        if not member and not is_start:
            res["violations"].append(violation("deep-not-a-tree-state", f"{PROP} deep-not-a-tree-state:{ts['type']}", f"{where}: returned state is not a state of the trajectory"))
            return res
        if ts["type"] == "slice" and rec.uniforms:
            # slice variable: log u - h_init <= -h(s)  <=>  state s is in the slice; if every state of the tree is, each
            # doubling's new sub-tree (same size as the old tree) is accepted with probability exactly 1, so the
            # returned state belongs to the sub-tree added last = the last 2^(d-1) integrator outputs
            log_u = math.log(rec.uniforms[0]) if rec.uniforms[0] > 0 else -math.inf
            hs = [float(system.h(o)) for o in outs]
            if all(log_u <= h_init - h for h in hs):
                stats["deep_all_in_slice"] += 1
                last = set(range(len(outs) - 2 ** (ts["max_tree_depth"] - 1), len(outs)))
                if not (set(member) & last):
                    res["violations"].append(violation("deep-slice-selection", f"{PROP} deep-slice-selection",
                                                      f"{where}: all {len(outs) + 1} states are in the slice, so the state must come from the sub-tree added last "
                                                      f"(integrator outputs {min(last)}..{max(last)}), but it is {'the start state' if is_start else 'output ' + str(member)}"))
                    return res
        state = out
    res["keys"].append(digest(["deep", ts, scn["integrator"]["step_size"], spec["dim"]]))
    return res


def reach(ts):
    if ts["type"] == "static":
        return ts["n_step"]
    if ts["type"] == "random":
        return ts["n_step_range"][1] - 1  # rng.integers(lo, hi) excludes hi
    return 2 ** ts["max_tree_depth"] - 1


def build_transition(system, integ, ts, crit):
    import mici

    T = mici.transitions
    if ts["type"] == "static":
        return T.MetropolisStaticIntegrationTransition(system, integ, n_step=ts["n_step"])
    if ts["type"] == "random":
        return T.MetropolisRandomIntegrationTransition(system, integ, n_step_range=tuple(ts["n_step_range"]))
    cls = T.MultinomialDynamicIntegrationTransition if ts["type"] == "multinomial" else T.SliceDynamicIntegrationTransition
    return cls(system, integ, max_tree_depth=ts["max_tree_depth"], max_delta_h=ts["max_delta_h"],
               termination_criterion=crit, do_extra_subtree_checks=ts["do_extra_subtree_checks"])


def _run_scenario(scn):
    warnings.simplefilter("ignore")
    np.seterr(all="ignore")
    import mici
    from mici.states import ChainState

    stats = {"scenarios": 1, "paths": 0, "decisions": 0, "discarded": {}, "starts": 0, "judged": 0,
             "decision_kinds": {}, "worst_rel_residual": 0.0, "divergence_paths": 0, "integrator_error_paths": 0,
             }
    res = {"violations": [], "stats": stats, "keys": [], "evaluations": 1,
           "sample": {"system": scn["system"]["kind"], "metric": (scn["system"].get("metric") or {}).get("type"),
                      "integrator": scn["integrator"], "transition": scn["transition"], "offset": scn["system"]["target"]["offset"]}}

    def discard(why):
        stats["discarded"][why] = stats["discarded"].get(why, 0) + 1
        return res

    spec, ts = scn["system"], scn["transition"]
    system, _model = zoo.build_system(spec, hooked=True)  # hooked only to count model-function calls (work budget)
    integ_real = zoo.build_integrator(system, scn["integrator"])
    integ = dt.CountingIntegrator(integ_real)  # re-pointed at the boundary integrator once the orbit exists
    crit = MarginCriterion(ts.get("criterion", "euclidean"))
    trans = build_transition(system, integ, ts, crit)
    metrop = ts["type"] in ("static", "random")
    implicit = scn["integrator"]["type"] in ("implicit_leapfrog", "implicit_midpoint", "constrained")
    tol_idx = 1e-6 if implicit else 1e-9
    rho = 1e-6 if implicit else 1e-9
    R = scn["window"]
    rmax = reach(ts)
    K = R + 2 * rmax + 1
    r = rng_for(scn["start_seed"], "start")
    pos = zoo.start_position(spec, r, variant=r.randrange(3))
    g = np.random.default_rng(scn["start_seed"])
    st0 = ChainState(pos=np.array(pos, dtype=float), mom=None, dir=1)
    try:
        st0.mom = system.sample_momentum(st0, g)
        orbit = dt.Orbit(system, integ_real, st0, K)
    except mici.errors.Error:
        return discard("orbit-integrator-error")
    except (ValueError, np.linalg.LinAlgError):
        return discard("orbit-linear-algebra-error")
    if not orbit.finite():
        return discard("orbit-non-finite")
    if orbit.min_separation() < 1e-5:
        return discard("orbit-degenerate")
    if scn.get("boundary"):
        errcls = getattr(mici.errors, scn["boundary"]["error"])
        integ.__dict__["_inner"] = dt.BoundaryIntegrator(integ_real, orbit, scn["boundary"]["k"], errcls, tol_idx)
        stats["boundary_scenarios"] = 1
    href = min(orbit.h.values())
    w = {k: math.exp(-(orbit.h[k] - href)) for k in orbit.h}
    T = {}
    had_error = False
    n_paths = 0
    reach_ends = set()
    starts = [(i, d) for i in range(-R - rmax, R + rmax + 1) for d in ((1, -1))]
    stats["starts"] = len(starts)
    for i, d in starts:
        h_init = orbit.h[i]

        def run(rng, i=i, d=d):
            st = orbit.states[i].copy()
            st.dir = d
            integ.reset()
            crit.margins = []
            out, st_stats = trans.sample(st, rng)
            return out, st_stats, list(integ.outputs), integ.n_calls, list(integ.errors), list(crit.margins)

        try:
            for p, (out, st_stats, outs, n_calls, errors, margins), script in dt.enumerate_paths(run, scn["path_cap"] - n_paths):
                n_paths += 1
                stats["decisions"] += len(script.trace)
                if scn.get("work_cap") and stats["decisions"] + _CALLS[0] > scn["work_cap"]:
                    stats["paths"] = n_paths
                    return discard("work-budget")
                for kd in script.kinds:
                    stats["decision_kinds"][kd] = stats["decision_kinds"].get(kd, 0) + 1
                if margins and min(margins) < 1e-9:
                    return discard("criterion-margin")
                if errors and scn.get("boundary") and all(e_ == scn["boundary"]["error"] for e_ in errors):
                    stats["boundary_error_paths"] = stats.get("boundary_error_paths", 0) + 1
                    flag = "convergence_error" if scn["boundary"]["error"] == "ConvergenceError" else "non_reversible_step"
                    if not st_stats.get(flag):
                        res["violations"].append(violation("error-flag", f"{PROP} error-flag:{ts['type']}",
                                                          f"trajectory hit {errors} but statistic {flag} is {st_stats.get(flag)} (start {i}, dir {d})"))
                        return res
                elif errors:
                    # genuine integrator errors: stationarity is not claimed (probe), but the reported
                    # step count / acceptance statistic of this path are still checked below
                    stats["integrator_error_paths"] += 1
                    had_error = True
                if st_stats.get("diverging"):
                    stats["divergence_paths"] += 1
                j, dist = orbit.index_of(out, tol_idx)
                if j is None:
                    if had_error:
                        j = 10**6  # off-orbit after an error: only bookkeeping is judged
                    else:
                        return discard("end-state-off-orbit")
                e = int(out.dir)
                key = (i, d, j, e) if metrop else (i, d, j, 0)
                T[key] = T.get(key, 0.0) + p
                reach_ends.add(j)
                # per-path bookkeeping
                if st_stats["n_step"] != len(outs) or (not errors and n_calls != len(outs)):
                    res["violations"].append(violation("n-step", f"{PROP} n-step:{ts['type']}",
                                                      f"transition reports n_step={st_stats['n_step']} but made {len(outs)} successful integrator steps (start {i}, dir {d}, decisions {[c for c, _ in script.trace]})",
                                                      decisions=[c for c, _ in script.trace], start=[i, d]))
                    return res
                probs = []
                for s_ in outs:
                    hk = float(system.h(s_))
                    diff = h_init - hk
                    probs.append(0.0 if math.isnan(diff) else math.exp(min(0.0, diff)))
                if metrop:
                    want = 0.0 if errors else (probs[-1] if probs else 0.0)
                else:
                    flagged = any(st_stats.get(k_) for k_ in ("diverging", "convergence_error", "non_reversible_step"))
                    want = 0.0 if flagged or not probs else sum(probs) / len(probs)
                got = float(st_stats["accept_stat"])
                if abs(got - want) > 1e-9 * max(1.0, abs(want)) + (1e-6 if implicit else 0.0):
                    res["violations"].append(violation("accept-stat", f"{PROP} accept-stat:{ts['type']}",
                                                      f"accept_stat={got} but mean Metropolis acceptance probability of the {len(outs)} visited states is {want} (start {i}, dir {d})",
                                                      decisions=[c for c, _ in script.trace], start=[i, d]))
                    return res
        except dt.PathCap:
            stats["paths"] = n_paths
            return discard("path-cap")
        n_done = starts.index((i, d)) + 1
        if n_done in (4, 16, 32) and n_paths / n_done * len(starts) > 2.0 * scn["path_cap"]:
            # deterministic early exit: the decision tree of this scenario will not fit the budget
            stats["paths"] = n_paths
            return discard("path-cap-predicted")
        if scn.get("work_cap"):
            work = stats["decisions"] + _CALLS[0]
            if work > scn["work_cap"] or (n_done in (1, 2, 4, 8, 16, 32) and work / n_done * len(starts) > 1.5 * scn["work_cap"]):
                stats["paths"] = n_paths
                return discard("work-budget")
    stats["paths"] = n_paths
    if had_error:
        return discard("integrator-error-in-trajectory")
    # row sums
    rows = {}
    for (i, d, j, e), p in T.items():
        rows[(i, d)] = rows.get((i, d), 0.0) + p
    worst_row = max(abs(v - 1.0) for v in rows.values())
    if worst_row > 1e-9:
        res["violations"].append(violation("row-sum", f"{PROP} row-sum", f"path probabilities of one start sum to 1{worst_row:+.2e}: enumeration incomplete or probabilities inconsistent"))
        return res
    stats["judged"] = 1
    worst = 0.0
    if metrop:
        for j in range(-R, R + 1):
            for e in (1, -1):
                lhs = sum(w[i] * p for (i, d, jj, ee), p in T.items() if jj == j and ee == e)
                local = max(w[i] for i in range(j - rmax, j + rmax + 1))
                tol = rho * w[j] + 1e-12 * local
                err = abs(lhs - w[j])
                worst = max(worst, err / w[j]) if w[j] > 0 else worst if w[j] > 0 else worst
                if err > tol:
                    res["violations"].append(violation("stationarity", f"{PROP} stationarity:{ts['type']}",
                                                      f"sum over starts of w*P(start -> (k={j}, dir={e})) = {lhs:.12g} but w(k={j}) = {w[j]:.12g} (relative error {err / max(w[j], 1e-300):.3e}); {res['sample']}",
                                                      end=[j, e]))
                    stats["worst_rel_residual"] = worst
                    return res
    else:
        # the kernel must not depend on the incoming direction flag
        for (i, d, j, _e), p in list(T.items()):
            if d == 1:
                q = T.get((i, -1, j, 0), 0.0)
                if abs(p - q) > 1e-9:
                    res["violations"].append(violation("direction-dependence", f"{PROP} direction-dependence:{ts['type']}",
                                                      f"P({i}->{j}) = {p} for dir=+1 start but {q} for dir=-1 start"))
                    return res
        for j in range(-R, R + 1):
            lhs = sum(w[i] * p for (i, d, jj, _e), p in T.items() if jj == j and d == 1)
            local = max(w[i] for i in range(j - rmax, j + rmax + 1))
            tol = rho * w[j] + 1e-12 * local
            err = abs(lhs - w[j])
            worst = max(worst, err / w[j]) if w[j] > 0 else worst
            if err > tol:
                res["violations"].append(violation("stationarity", f"{PROP} stationarity:{ts['type']}",
                                                  f"sum over starts of w*P(start -> k={j}) = {lhs:.12g} but w(k={j}) = {w[j]:.12g} (relative error {err / max(w[j], 1e-300):.3e}); {res['sample']}",
                                                  end=[j]))
                stats["worst_rel_residual"] = worst
                return res
    stats["worst_rel_residual"] = 0.0
    dec = "0" if worst == 0 else f"1e{int(math.floor(math.log10(worst)))}"
    stats["residual_decades"] = {dec: 1}
    if len(reach_ends) >= 2 and n_paths >= 8:
        res["keys"].append(digest([spec["kind"], (spec.get("metric") or {}).get("type"), scn["integrator"]["type"], ts, spec["target"]["offset"]]))
    return res


_CALLS = [0]


def _count_call(name, q):  # noqa: ARG001
    _CALLS[0] += 1


def run_scenario(scn):
    from models import hooks

    if scn.get("family") == "deep":
        return deep_tree_invariants(scn)
    _CALLS[0] = 0
    hooks.install(_count_call)
    try:
        res = _run_scenario(scn)
    finally:
        hooks.clear()
    res["stats"]["model_calls"] = _CALLS[0]
    return res


def summarise(stats):
    return {"residual_note": "stats.residual_decades = histogram over judged scenarios of the worst relative stationarity residual (decade)"}


def minimise(scn, viol, still_fails):
    cur = copy.deepcopy(scn)
    for key, vals in (("window", [1, 2]),):
        for val in vals:
            cand = copy.deepcopy(cur)
            cand[key] = val
            if still_fails(cand):
                cur = cand
                break
    ts = cur["transition"]
    for k_, vals in (("max_tree_depth", [1, 2]), ("n_step", [1, 2]), ("do_extra_subtree_checks", [False])):
        if k_ in ts:
            for val in vals:
                if ts[k_] == val:
                    break
                cand = copy.deepcopy(cur)
                cand["transition"][k_] = val
                if still_fails(cand):
                    cur = cand
                    break
    return cur
