"""C19 — matrix objects behave as immutable values (engine E4 matrix machine)."""

from __future__ import annotations

import copy
import warnings

import numpy as np

from engines import histsim as hs
from engines import matsim as ms
from simkit.core import digest, rng_for

PROP = "C19"
LEVEL = "exploration"
RULE = (
    "seeded operation histories over a pool of matrix objects (20 base classes with constructor options: signs, lower/upper, "
    "optional precomputed factors, implicit sizes, sizes 1-4; 8 composite classes built from pool members: block diagonal/row/"
    "column, low-rank updates; products, scalar multiples, negations, transposes, inverses, square roots as derived members) "
    "and a twin pool built from equal parameter copies that reads lazy properties in a different seeded order. Operations: "
    "read any lazy property, products with vectors/arrays/matrices, copy/deepcopy/pickle, drop a lazy cache, attempt an in-place "
    "write into constructor-supplied arrays through public accessors. After every step: caller arrays and dense snapshots "
    "bitwise unchanged, properties stable and equal to the twin's, writes refused, eq/hash laws. distinct_nontrivial = distinct "
    "(class multiset, op-kind multiset) histories with >=3 objects and >=5 property reads."
)
ASSUMPTIONS = [
    "writes into arrays derived by the library (e.g. a lazily built dense array) are not attempted: the property speaks of parameters",
    "properties compared at rtol 1e-9; matrices by dense array",
    "operations that legitimately raise (LinAlgError, NotImplementedError, RuntimeError for implicit sizes) are skipped",
]
REAL_VS_STUB = "real: all mici matrix classes, numpy/scipy; stub: none (lazy caches dropped where a constructor would have left them empty)"
WALL_CAP_S = {"quick": 300, "thorough": 3000}
MIN_EVALUATIONS = {"quick": 500, "thorough": 5000}
N = {"quick": 4000, "thorough": 100000}
HIST_PER_SCN = 4


def scenarios(tier, seed):
    return [{"hist_seed": rng_for(seed, PROP, i).getrandbits(40), "n_hist": HIST_PER_SCN} for i in range(N[tier])]


def run_history(ops, seed):
    m = ms.MatrixMachine(seed)
    m.run(ops)
    return m


def run_scenario(scn):
    warnings.simplefilter("ignore")
    np.seterr(all="ignore")
    stats = {"histories": 0, "ops": 0, "reads": 0, "objects": 0, "lazy_drops": 0, "write_attempts": 0, "writes_refused": 0, "op_counts": {}, "classes": {}}
    keys, viols = [], []
    if scn.get("ops") is not None:
        hists = [(scn["ops"], scn.get("mseed", 0))]
    else:
        hists = []
        for h in range(scn["n_hist"]):
            rng = rng_for(scn["hist_seed"], "hist", h)
            hists.append((ms.gen_ops(rng, rng.choice([10, 20, 35])), rng.getrandbits(30)))
    sample = None
    for ops, mseed in hists:
        m = run_history(ops, mseed)
        stats["histories"] += 1
        stats["ops"] += m.n_ops
        stats["reads"] += m.n_reads
        stats["objects"] += len(m.pool)
        stats["lazy_drops"] += m.lazy_drops
        stats["write_attempts"] += m.write_attempts
        stats["writes_refused"] += m.writes_refused
        stats["probe_op_rejected"] = stats.get("probe_op_rejected", 0) + getattr(m, "probe_op_rejected", 0)
        for k, v in m.op_counts.items():
            stats["op_counts"][k] = stats["op_counts"].get(k, 0) + v
        for b in m.pool:
            c = type(b.m).__name__
            stats["classes"][c] = stats["classes"].get(c, 0) + 1
        if sample is None:
            sample = {"ops": ops[:10], "classes": [type(b.m).__name__ for b in m.pool][:8]}
        if m.violations:
            v = dict(m.violations[0])
            v["sig"] = f"{PROP} {v['sig']}"
            v["detail"] = {"ops": ops, "mseed": mseed}
            viols.append(v)
            break
        if len(m.pool) >= 3 and m.n_reads >= 5:
            keys.append(digest([sorted(type(b.m).__name__ for b in m.pool), sorted(m.op_counts.items())]))
    return {"violations": viols, "stats": stats, "keys": keys, "sample": sample, "evaluations": stats["histories"]}


def minimise(scn, viol, still_fails):
    d = viol.get("detail") or {}
    ops = d.get("ops")
    if not ops:
        return scn
    cur = copy.deepcopy(scn)
    cur["ops"], cur["mseed"] = ops, d.get("mseed", 0)
    if not still_fails(cur):
        return scn

    def fails(cand):
        c = copy.deepcopy(cur)
        c["ops"] = cand
        return bool(still_fails(c))

    cur["ops"] = hs.ddmin(ops, fails)
    return cur
