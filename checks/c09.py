"""C09 — state-level caching is transparent (engine E4 history simulator)."""

from __future__ import annotations

import copy
import warnings

import numpy as np

from engines import histsim as hs
from models import zoo
from simkit.core import digest, rng_for, violation

PROP = "C09"
LEVEL = "exploration"
RULE = (
    "seeded operation histories (<=30 ops: assign pos/mom/dir, in-place update, copy, read-only copy, pickle round trip, "
    "call of any cached/public state method of either of two distinct system objects of one class, component flows, "
    "integrator step, transition) over a pool of <=4 states derived from each other, for every system class and both "
    "return conventions; every method call is compared with the same call on a state built from scratch. Second oracle: "
    "integrator steps and transitions on ordinary states equal the same run on states whose cache legally misses at rate "
    "10%/50%/100% (ForgetfulChainState). distinct_nontrivial = distinct (system class, convention, op-kind multiset "
    "digest) histories with >=2 states and >=3 checked calls."
)
ASSUMPTIONS = [
    "system attributes are never mutated by the machine (not in the property's operation list)",
    "harness model functions never keep references to their input arrays; in-place assignment on read-only states is not generated",
    "results compared with rtol 1e-12 (arrays), matrices by dense array, returned callables by application to a fixed probe",
]
REAL_VS_STUB = "real: mici ChainState, cache decorators, systems, integrators, transitions; stub: none (cache misses injected through a ChainState subclass)"
WALL_CAP_S = {"quick": 300, "thorough": 3000}
MIN_EVALUATIONS = {"quick": 500, "thorough": 5000}
N = {"quick": 1600, "thorough": 40000}
HIST_PER_SCN = 14


def scenarios(tier, seed):
    out = []
    kinds = list(zoo.SYSTEM_KINDS)
    for i in range(N[tier]):
        rng = rng_for(seed, PROP, i)
        kind = kinds[i % len(kinds)]
        spec = zoo.random_system_spec(rng, kinds=(kind,), dims=(2, 3))
        spec2 = hs.second_spec(spec, rng)
        ispec = zoo.random_integrator_spec(rng, kind, step_size=rng.choice([0.05, 0.2]), allow_implicit_for_tractable=rng.random() < 0.3)
        out.append({"spec": spec, "spec2": spec2, "integrator": ispec, "hist_seed": rng.getrandbits(40), "n_hist": HIST_PER_SCN})
    return out


def forgetful_equivalence(scn, rng, stats):
    """Integrator steps / transitions with caching defeated give the same result."""
    import mici
    from mici.states import ChainState

    system, _ = zoo.build_system(scn["spec"])
    integ = zoo.build_integrator(system, scn["integrator"])
    kind = scn["spec"]["kind"]
    T = mici.transitions
    r = rng
    pos = zoo.start_position(scn["spec"], r, r.randrange(3))
    g = np.random.default_rng(r.getrandbits(32))
    base = ChainState(pos=np.array(pos, dtype=float), mom=None, dir=1)
    try:
        base.mom = system.sample_momentum(base, g)
    except (mici.errors.Error, ValueError):
        return None
    trans_kind = r.choice(["step", "step3", "static", "multinomial", "slice", "momentum"])
    rate = r.choice([0.1, 0.5, 1.0])
    seed = r.getrandbits(32)

    def make_trans():
        if trans_kind == "static":
            return T.MetropolisStaticIntegrationTransition(system, integ, n_step=2)
        if trans_kind == "multinomial":
            return T.MultinomialDynamicIntegrationTransition(system, integ, max_tree_depth=2)
        if trans_kind == "slice":
            return T.SliceDynamicIntegrationTransition(system, integ, max_tree_depth=2)
        return T.CorrelatedMomentumTransition(system, 0.6)

    def run(state):
        rr = np.random.default_rng(seed)
        try:
            if trans_kind == "step":
                return integ.step(state), None
            if trans_kind == "step3":
                s = state
                for _ in range(3):
                    s = integ.step(s)
                return s, None
            out, st = make_trans().sample(state, rr)
            return out, st
        except mici.errors.IntegratorError as e:
            return None, type(e).__name__

    a, sa = run(base.copy())
    fstate = hs.forgetful_copy_of(base, rate, seed)
    b, sb = run(fstate)
    stats["forgetful_runs"] = stats.get("forgetful_runs", 0) + 1
    stats["forgetful_misses"] = stats.get("forgetful_misses", 0) + getattr(fstate._cache, "misses", 0)  # noqa: SLF001
    if (a is None) != (b is None):
        return violation("forgetful-differs", f"{PROP} forgetful-differs:{trans_kind}:{kind}", f"{trans_kind}: with caching defeated (miss rate {rate}) outcome {sb!r} vs {sa!r}")
    if a is None:
        return None
    for var in ("pos", "mom"):
        x, y = np.asarray(getattr(a, var)), np.asarray(getattr(b, var))
        if not np.allclose(x, y, rtol=1e-9, atol=1e-12, equal_nan=True):
            return violation("forgetful-differs", f"{PROP} forgetful-differs:{trans_kind}:{kind}",
                             f"{trans_kind} on {type(system).__name__} with {type(integ).__name__}: {var} = {x.tolist()} with caching, {y.tolist()} with cache misses at rate {rate}")
    if isinstance(sa, dict) and isinstance(sb, dict):
        for k in sa:
            if isinstance(sa[k], (int, float, bool, np.floating, np.integer)) and not np.isclose(float(sa[k]), float(sb[k]), rtol=1e-9, atol=1e-12, equal_nan=True):
                return violation("forgetful-differs", f"{PROP} forgetful-differs-stats:{trans_kind}:{kind}", f"statistic {k}: {sa[k]} vs {sb[k]} with caching defeated")
    return None


def run_history(scn, ops):
    m = hs.Machine(scn["spec"], scn["spec2"], scn["integrator"])
    m.run(ops)
    return m


def run_scenario(scn):
    warnings.simplefilter("ignore")
    np.seterr(all="ignore")
    stats = {"histories": 0, "ops": 0, "checked_calls": 0, "op_counts": {}, "skipped_ops": 0, "forgetful_runs": 0, "forgetful_misses": 0}
    keys, viols = [], []
    if scn.get("ops") is not None:
        histories = [scn["ops"]]
    else:
        histories = []
        for h in range(scn["n_hist"]):
            rng = rng_for(scn["hist_seed"], "hist", h)
            histories.append(hs.gen_ops(rng, scn["spec"], rng.choice([6, 12, 20, 30]), allow_derive=True))
    sample = None
    for h, ops in enumerate(histories):
        m = run_history(scn, ops)
        stats["histories"] += 1
        stats["ops"] += m.ops_done
        stats["checked_calls"] += m.n_checked
        stats["skipped_ops"] += m.skipped
        for k, v in m.op_counts.items():
            stats["op_counts"][k] = stats["op_counts"].get(k, 0) + v
        if sample is None:
            sample = {"system": scn["spec"]["kind"], "tuple_conv": scn["spec"].get("tuple_conv"), "ops": ops[:12]}
        if m.violations:
            v = dict(m.violations[0])
            v["sig"] = f"{PROP} {v['sig']}"
            v["detail"] = {"ops": ops}
            viols.append(v)
            break
        if len(m.states) >= 2 and m.n_checked >= 3:
            keys.append(digest([scn["spec"]["kind"], scn["spec"].get("tuple_conv"), sorted(m.op_counts.items()), len(ops)]))
    if not viols and scn.get("ops") is None:
        rng = rng_for(scn["hist_seed"], "forgetful")
        for _ in range(4):
            v = forgetful_equivalence(scn, rng, stats)
            if v:
                viols.append(v)
                break
    return {"violations": viols, "stats": stats, "keys": keys, "sample": sample, "evaluations": stats["histories"] + stats["forgetful_runs"]}


def minimise(scn, viol, still_fails):
    ops = (viol.get("detail") or {}).get("ops")
    if not ops:
        return scn
    cur = copy.deepcopy(scn)
    cur["ops"] = ops
    if not still_fails(cur):
        return scn

    def fails(cand_ops):
        c = copy.deepcopy(cur)
        c["ops"] = cand_ops
        return bool(still_fails(c))

    cur["ops"] = hs.ddmin(ops, fails)
    return cur
