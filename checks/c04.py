"""C04 — constrained dynamics never leave the constraint manifold or its cotangent space (engine E3 monitors)."""

from __future__ import annotations

import copy
import warnings

import numpy as np

from engines import faultsim as fs
from models import zoo
from simkit.core import digest, rng_for, violation

PROP = "C04"
LEVEL = "exploration"
RULE = (
    "seeded chains on constrained systems (sphere / ellipse / two-constraint / linear manifolds, identity/diagonal/dense "
    "metrics, both density conventions, Gaussian-split variant) x 3 projection solvers x inner-step counts 1-4 x step sizes, "
    "with solver budgets (max_iters 1-3.., line-search 0-2..), tolerances and deterministic NaN/inf/exception regions of "
    "constr / jacob_constr. Monitors: after every successful step and every momentum draw the constraint and cotangent "
    "residuals are re-evaluated from scratch; at the solver seam every return has residual < constraint_tol and a "
    "Lagrange-multiplier-form correction, every failure is a ConvergenceError. distinct_nontrivial = distinct (constraint, "
    "metric, convention, solver, knobs, inner steps, step sizes, fault region) with >=1 successful monitored step and >=1 solve."
)
ASSUMPTIONS = [
    "limits: |c(q)| < 10*constraint_tol, |J M^-1 p| < 1e-8*(1+|p|)*max(1,|J|) (calibrated: worst 1.0e-9 / 2.4e-15 on the pinned tree)",
    "the input space is sampled along chains; the fault clause (returns only when converged, otherwise ConvergenceError) is what injection decides",
    "oracle evaluations use fresh states with the injector paused",
]
REAL_VS_STUB = "real: mici constrained integrator, projection solvers, constrained systems; stub: none (model functions get bad regions)"
WALL_CAP_S = {"quick": 300, "thorough": 3000}
MIN_EVALUATIONS = {"quick": 100, "thorough": 1000}
N = {"quick": 5000, "thorough": 150000}


def scenarios(tier, seed):
    out = []
    for i in range(N[tier]):
        rng = rng_for(seed, PROP, i)
        spec = zoo.random_system_spec(rng, kinds=("con", "con", "gcon"), dims=(2, 3, 4))
        ispec = zoo.random_integrator_spec(rng, spec["kind"], step_size=rng.choice([0.05, 0.2, 0.5, 1.0]))
        ispec["n_inner_step"] = rng.choice([1, 1, 2, 3, 4])
        if rng.random() < 0.6:
            kw = {"max_iters": rng.choice([1, 2, 3, 5, 50])}
            if rng.random() < 0.5:
                kw["constraint_tol"] = rng.choice([1e-9, 1e-7, 1e-11])
            if rng.random() < 0.3:
                kw["position_tol"] = rng.choice([1e-8, 1e-5, 1e-10])
            if ispec["solver"] == "newton_ls":
                kw["max_line_search_iters"] = rng.choice([0, 1, 2, 10])
            ispec["solver_kwargs"] = kw
        if rng.random() < 0.2:
            ispec["reverse_check_tol"] = rng.choice([2e-8, 1e-4])
        t = rng.choice(["static", "random", "multinomial", "slice"])
        ts = {"type": t}
        if t == "static":
            ts["n_step"] = rng.choice([1, 2, 4])
        elif t == "random":
            ts["n_step_range"] = [1, rng.choice([3, 5])]
        else:
            ts.update(max_tree_depth=rng.choice([1, 2, 3]), criterion=rng.choice(["euclidean", "riemannian"]), do_extra_subtree_checks=rng.random() < 0.5)
        region = None
        if rng.random() < 0.4:
            region = {"fn": rng.choice(["constr", "jacob_constr", "constr", "jacob_constr", "grad_neg_log_dens", "mhp_constr"]), "axis": rng.randrange(3),
                      "offset": rng.choice([-0.6, -0.3, 0.3, 0.6]),
                      "kind": rng.choice(["nan", "+inf", "-inf", "nan_entry", "inf_entry", "ValueError", "np_LinAlgError", "mici_LinAlgError"])}
        out.append({
            "system": spec, "integrator": ispec, "transition": ts, "n_iter": rng.choice([3, 5, 8]), "chain_seed": rng.getrandbits(40),
            "start_variant": rng.randrange(3), "mom_resample_coeff": rng.choice([1.0, 1.0, 0.5]),
            "step_sizes": rng.choice([None, None, [0.05, 0.4, 1.2], [0.8, 2.0]]),
            "region": region, "check_manifold": True, "solver_fail": rng.choice([None, None, [2], [1, 5, 9]]),
        })
    return out


def run_scenario(scn):
    from checks.c02 import resolve_region

    warnings.simplefilter("ignore")
    np.seterr(all="ignore")
    region = resolve_region(scn)
    ctx, out = fs.run_chain(scn, region=region, solver_fail_at=scn.get("solver_fail"), judge_c12=False)
    c = ctx.counters
    stats = {"chains": 1, "steps": c.get("steps", 0), "steps_ok": c.get("steps_ok", 0), "manifold_checks": c.get("manifold_checks", 0),
             "lagrange_checks": c.get("lagrange_checks", 0), "proj_solves": c.get("proj_solves", 0), "proj_returns": c.get("proj_returns", 0),
             "proj_convergence_errors": c.get("proj_convergence_errors", 0),
             "step_errors": {k.split(":", 1)[1]: v for k, v in c.items() if k.startswith("step_errors:")},
             "fired": {k.split(":", 1)[1]: v for k, v in c.items() if k.startswith("fired:")},
             "escaped": {}}
    viols = []
    for x in ctx.violations:
        if x["cls"] in ("off-manifold", "off-cotangent", "solver-unconverged", "lagrange-form", "solver-foreign-exception"):
            y = dict(x)
            y["sig"] = f"{PROP} {x['sig']}"
            viols.append(y)
    if out["escaped"]:
        stats["escaped"][out["escaped"][0]] = 1  # escapes outside solvers belong to C12
    keys = []
    if stats["steps_ok"] and stats["proj_solves"]:
        keys.append(digest([scn["system"].get("constraint"), (scn["system"].get("metric") or {}).get("type"), scn["system"]["kind"], scn["system"].get("hausdorff"),
                            scn["integrator"], scn.get("step_sizes"), region]))
    sample = {"constraint": scn["system"].get("constraint"), "kind": scn["system"]["kind"], "integrator": scn["integrator"], "region": region,
              "manifold_checks": stats["manifold_checks"], "proj_convergence_errors": stats["proj_convergence_errors"]}
    seen, uniq = set(), []
    for x in viols:
        if x["sig"] not in seen:
            seen.add(x["sig"])
            uniq.append(x)
    return {"violations": uniq, "stats": stats, "keys": keys, "sample": sample, "evaluations": 1}


def minimise(scn, viol, still_fails):
    cur = copy.deepcopy(scn)
    for key, vals in (("region", [None]), ("solver_fail", [None]), ("step_sizes", [None]), ("n_iter", [1, 2])):
        for val in vals:
            if cur.get(key) == val:
                continue
            cand = copy.deepcopy(cur)
            cand[key] = val
            if still_fails(cand):
                cur = cand
                break
    return cur
