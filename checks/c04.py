"""C04 — constrained dynamics never leave the constraint manifold or its cotangent space (engine E3 monitors)."""

from __future__ import annotations

import copy
import warnings

import numpy as np

from engines import faultsim as fs
from models import zoo
from simkit.core import digest, rng_for, violation

PROP = "C04"
LEVEL = "exploration"
RULE = (
    "seeded chains on constrained systems (sphere / ellipse / two-constraint / linear manifolds, identity/diagonal/dense "
    "metrics, both density conventions, Gaussian-split variant) x 3 projection solvers x inner-step counts 1-4 x step sizes, "
    "with solver budgets (max_iters 1-3.., line-search 0-2..), tolerances and deterministic NaN/inf/exception regions of "
    "constr / jacob_constr. Monitors: after every successful step and every momentum draw the constraint and cotangent "
    "residuals are re-evaluated from scratch; at the solver seam every return has residual < constraint_tol and a "
    "Lagrange-multiplier-form correction, every failure is a ConvergenceError. distinct_nontrivial = distinct (constraint, "
    "metric, convention, solver, knobs, inner steps, step sizes, fault region) with >=1 successful monitored step and >=1 solve."
)
ASSUMPTIONS = [
    "limits: |c(q)| < 10*constraint_tol, |J M^-1 p| < 1e-8*(1+max(|p|,|M^-1 p|))*max(1,|J|), and scale-free: the cosine between the velocity and every constraint normal in the metric inner product < 1e-10*max(10, cond(normalised Gram matrix)) (worst seen on the repaired tree: 1.4% of that limit); metric scales 1e-6..1e6 and a pair of planes 1e-2 rad apart are part of the swarm",
    "the input space is sampled along chains; the fault clause (returns only when converged, otherwise ConvergenceError) is what injection decides",
    "oracle evaluations use fresh states with the injector paused",
]
REAL_VS_STUB = "real: mici constrained integrator, projection solvers, constrained systems; stub: none (model functions get bad regions)"
WALL_CAP_S = {"quick": 300, "thorough": 3000}
MIN_EVALUATIONS = {"quick": 100, "thorough": 1000}
N = {"quick": 5000, "thorough": 150000}


def _vary_conditioning(spec, rng):
    """Swarm knob: the Gram matrix J M^-1 J^T is only ever O(1) and well conditioned with the stock zoo;
    metric scales from 1e-6 to 1e6 and a nearly parallel pair of constraints move it to both ends."""
    if rng.random() < 0.15:
        spec["constraint"] = "planes"
        spec["dim"] = max(spec["dim"], 3)
        if len(spec["target"]["c"]) != spec["dim"]:
            t = spec["target"]
            spec["target"] = zoo.quartic_from_seed(rng, spec["dim"], offset=t.get("offset", 0.0), scale=t.get("scale", 1.0))
            spec["metric"] = zoo.random_metric_spec(rng, spec["dim"], (spec["metric"]["type"],))
    if rng.random() < 0.35:
        k = rng.choice([1e-6, 1e-3, 1e3, 1e6])
        m = spec["metric"]
        if m["type"] == "diag":
            m["diag"] = [k * x for x in m["diag"]]
        elif m["type"] == "dense":
            m["array"] = (k * np.array(m["array"])).tolist()
        spec["metric_scale"] = k if m["type"] in ("diag", "dense") else 1.0


def scenarios(tier, seed):
    from engines import chainsim

    out = []
    for i in range(N[tier]):
        rng = rng_for(seed, PROP, i)
        if i % 25 == 24:
            # adaptive family (E2): metric adapters change the metric under the chain states
            ch = chainsim.random_scenario(rng)
            while ch["sampler"] == "generic":
                ch = chainsim.random_scenario(rng)
            spec = zoo.random_system_spec(rng, kinds=("con", "gcon"), dims=(3, 4))
            ch["system"] = spec
            ch["integrator"] = zoo.random_integrator_spec(rng, spec["kind"], step_size=rng.choice([0.05, 0.2]))
            if ch["sampler"] in ("multinomial", "slice"):
                ch["sampler_kwargs"]["max_tree_depth"] = min(2, ch["sampler_kwargs"]["max_tree_depth"])
            ch["adapters"] = rng.choice([["dual", "var"], ["dual", "cov"], ["var"], ["cov", "dual"]])
            ch["n_warm_up"] = rng.choice([6, 10, 16])
            ch["n_main"] = rng.choice([1, 3])
            ch["n_chain"] = rng.choice([1, 2, 3])
            ch["n_process"] = rng.choice([1, 1, 1, 2])
            ch["storage"] = "mem" if ch["n_process"] == 1 else ch["storage"]
            ch["trace"] = "pos"
            ch["log_metric_arrays"] = True
            out.append({"family": "adaptive", "chain": ch})
            continue
        spec = zoo.random_system_spec(rng, kinds=("con", "con", "gcon"), dims=(2, 3, 4))
        _vary_conditioning(spec, rng)
        ispec = zoo.random_integrator_spec(rng, spec["kind"], step_size=rng.choice([0.05, 0.2, 0.5, 1.0]))
        ispec["n_inner_step"] = rng.choice([1, 1, 2, 3, 4])
        if rng.random() < 0.6:
            kw = {"max_iters": rng.choice([1, 2, 3, 5, 50])}
            if rng.random() < 0.5:
                kw["constraint_tol"] = rng.choice([1e-9, 1e-7, 1e-11])
            if rng.random() < 0.3:
                kw["position_tol"] = rng.choice([1e-8, 1e-5, 1e-10])
            if ispec["solver"] == "newton_ls":
                kw["max_line_search_iters"] = rng.choice([0, 1, 2, 10])
            ispec["solver_kwargs"] = kw
        if rng.random() < 0.2:
            ispec["reverse_check_tol"] = rng.choice([2e-8, 1e-4])
        t = rng.choice(["static", "random", "multinomial", "slice"])
        ts = {"type": t}
        if t == "static":
            ts["n_step"] = rng.choice([1, 2, 4])
        elif t == "random":
            ts["n_step_range"] = [1, rng.choice([3, 5])]
        else:
            ts.update(max_tree_depth=rng.choice([1, 2, 3]), criterion=rng.choice(["euclidean", "riemannian"]), do_extra_subtree_checks=rng.random() < 0.5)
        region = None
        if rng.random() < 0.4:
            region = {"fn": rng.choice(["constr", "jacob_constr", "constr", "jacob_constr", "grad_neg_log_dens", "mhp_constr"]), "axis": rng.randrange(3),
                      "offset": rng.choice([-0.6, -0.3, 0.3, 0.6]),
                      "kind": rng.choice(["nan", "+inf", "-inf", "nan_entry", "inf_entry", "ValueError", "np_LinAlgError", "mici_LinAlgError"])}
        out.append({
            "system": spec, "integrator": ispec, "transition": ts, "n_iter": rng.choice([3, 5, 8]), "chain_seed": rng.getrandbits(40),
            "start_variant": rng.randrange(3), "mom_resample_coeff": rng.choice([1.0, 1.0, 0.5]),
            "step_sizes": rng.choice([None, None, [0.05, 0.4, 1.2], [0.8, 2.0]]),
            "region": region, "check_manifold": True, "solver_fail": rng.choice([None, None, [2], [1, 5, 9]]),
        })
    return out


def adaptive_run(scn):
    """E2 family: sample_chains on a constrained system with metric adapters; every momentum that a
    transition or an adapter's finalize leaves in a chain state must lie in the cotangent space of the
    metric in force at that moment (re-evaluated from scratch, never through the state cache)."""
    from engines import chainoracle as orc
    from engines import chainsim

    warnings.simplefilter("ignore")
    np.seterr(all="ignore")
    rec = chainsim.run_scenario_raw(scn["chain"])
    stats = {"adaptive_runs": 1, "adaptive_momenta_checked": 0, "adaptive_discarded": 0, "chains": 0}
    viols = []
    if orc.documented_discard(rec) or rec.outcome != "returned":
        stats["adaptive_discarded"] = 1
        return {"violations": [], "stats": stats, "keys": [], "sample": {"family": "adaptive", "outcome": rec.outcome}, "evaluations": 1}
    cname = scn["chain"]["system"]["constraint"]
    c_fn, j_fn = zoo.CONSTRAINTS[cname][0], zoo.CONSTRAINTS[cname][1]
    dim = scn["chain"]["system"]["dim"]

    def residuals(pos, mom, m_arr):
        minv = np.eye(dim) if m_arr is None else np.linalg.inv(m_arr)
        J = np.asarray(j_fn(pos), dtype=float)
        return float(np.max(np.abs(c_fn(pos)))), float(np.max(np.abs(J @ (minv @ mom)))), float(np.max(np.abs(J)))

    def judge(pos, mom, m_arr, where):
        if pos is None or mom is None or not (np.all(np.isfinite(pos)) and np.all(np.isfinite(mom))) or np.max(np.abs(mom)) > 1e8:
            return None
        c, cot, jn = residuals(pos, mom, m_arr)
        stats["adaptive_momenta_checked"] += 1
        lim = 1e-8 * (1.0 + float(np.max(np.abs(mom)))) * max(1.0, jn) * (1.0 if m_arr is None else max(1.0, float(np.linalg.cond(m_arr))))
        if not (c < 1e-8):
            return violation("off-manifold", f"{PROP} off-manifold:{where}", f"{where}: |c(q)| = {c:.3e}")
        if not (cot < lim):
            return violation("off-cotangent", f"{PROP} off-cotangent:{where}", f"{where}: |J M^-1 p| = {cot:.3e} >= {lim:.1e} under the metric in force")
        return None

    for e in rec.log.entries:
        v = judge(e["state"].get("pos"), e["state"].get("mom"), e.get("metric_array"), f"after {e['trans']}")
        if v:
            viols.append(v)
            break
    if not viols:
        for a in rec.log.adapter:
            if a["ev"] == "finalize" and a.get("states_after") and a["adapter"].split("#")[0] in ("var", "cov"):
                for sa in a["states_after"]:
                    v = judge(sa.get("pos"), sa.get("mom"), a.get("metric_array"), f"momentum refreshed by {a['adapter'].split('#')[0]} adapter finalize")
                    if v:
                        viols.append(v)
                        break
            if viols:
                break
    keys = [digest(["adaptive", cname, scn["chain"].get("adapters"), scn["chain"]["n_chain"], scn["chain"]["n_process"]])] if stats["adaptive_momenta_checked"] else []
    return {"violations": viols, "stats": stats, "keys": keys, "sample": {"family": "adaptive", "constraint": cname, "adapters": scn["chain"].get("adapters"),
            "momenta_checked": stats["adaptive_momenta_checked"]}, "evaluations": 1}


def run_scenario(scn):
    from checks.c02 import resolve_region

    if scn.get("family") == "adaptive":
        return adaptive_run(scn)

    warnings.simplefilter("ignore")
    np.seterr(all="ignore")
    region = resolve_region(scn)
    ctx, out = fs.run_chain(scn, region=region, solver_fail_at=scn.get("solver_fail"), judge_c12=False)
    c = ctx.counters
    stats = {"chains": 1, "steps": c.get("steps", 0), "steps_ok": c.get("steps_ok", 0), "manifold_checks": c.get("manifold_checks", 0),
             "lagrange_checks": c.get("lagrange_checks", 0), "proj_solves": c.get("proj_solves", 0), "proj_returns": c.get("proj_returns", 0),
             "proj_convergence_errors": c.get("proj_convergence_errors", 0),
             "cotangent_relative_checks": c.get("cotangent_relative_checks", 0),
             "cotangent_relative_skipped_illconditioned": c.get("cotangent_relative_skipped_illconditioned", 0),
             "max_cotangent_cosine_over_limit": c.get("cotangent_relative_worst_e18", 0) / 1e18,
             "scaled_metric_chains": int(scn["system"].get("metric_scale", 1.0) != 1.0), "nearly_parallel_chains": int(scn["system"].get("constraint") == "planes"),
             "step_errors": {k.split(":", 1)[1]: v for k, v in c.items() if k.startswith("step_errors:")},
             "fired": {k.split(":", 1)[1]: v for k, v in c.items() if k.startswith("fired:")},
             "escaped": {}}
    viols = []
    for x in ctx.violations:
        if x["cls"] in ("off-manifold", "off-cotangent", "solver-unconverged", "lagrange-form", "solver-foreign-exception"):
            y = dict(x)
            y["sig"] = f"{PROP} {x['sig']}"
            viols.append(y)
    if out["escaped"]:
        stats["escaped"][out["escaped"][0]] = 1  # escapes outside solvers belong to C12
    keys = []
    if stats["steps_ok"] and stats["proj_solves"]:
        keys.append(digest([scn["system"].get("constraint"), (scn["system"].get("metric") or {}).get("type"), scn["system"]["kind"], scn["system"].get("hausdorff"),
                            scn["integrator"], scn.get("step_sizes"), region]))
    sample = {"constraint": scn["system"].get("constraint"), "kind": scn["system"]["kind"], "integrator": scn["integrator"], "region": region,
              "manifold_checks": stats["manifold_checks"], "proj_convergence_errors": stats["proj_convergence_errors"]}
    seen, uniq = set(), []
    for x in viols:
        if x["sig"] not in seen:
            seen.add(x["sig"])
            uniq.append(x)
    return {"violations": uniq, "stats": stats, "keys": keys, "sample": sample, "evaluations": 1}


def minimise(scn, viol, still_fails):
    cur = copy.deepcopy(scn)
    for key, vals in (("region", [None]), ("solver_fail", [None]), ("step_sizes", [None]), ("n_iter", [1, 2])):
        for val in vals:
            if cur.get(key) == val:
                continue
            cand = copy.deepcopy(cur)
            cand[key] = val
            if still_fails(cand):
                cur = cand
                break
    return cur
