"""C14 — sampling is reproducible and independent of process scheduling (engine E2)."""

from __future__ import annotations

import copy
import warnings

import numpy as np

from engines import chainoracle as orc
from engines import chainsim
from engines.chainsim import _eq_nan
from simkit.core import digest, rng_for, violation

PROP = "C14"
LEVEL = "exploration"
RULE = (
    "seeded base configuration x comparison group: (schedules) one n_process>1 under several seeded/adversarial "
    "schedules; (seq_vs_par) n_process=1 vs simulated parallel runs; (chain_count) m vs m+k chains without adapters; "
    "(elsewhere) other chains started elsewhere. Oracle: bitwise-equal outputs of the common chains, no repeated "
    "generator pre-state among always-drawing transition calls of a run. distinct_nontrivial = distinct "
    "(chain->worker assignment, completion order) pairs reached in parallel runs with >=2 chains."
)
ASSUMPTIONS = [
    "simulated workers are threads separated by pickle round trips",
    "runs ending in mici's documented AdaptationError are discarded (counted)",
    "stream-replay oracle looks at momentum / random-walk transition calls only (they always draw)",
]
REAL_VS_STUB = "real: all of mici incl. _get_per_chain_rngs and worker code; stub: pool, queues, OS scheduler, os.cpu_count"
WALL_CAP_S = {"quick": 300, "thorough": 3000}
MIN_EVALUATIONS = {"quick": 100, "thorough": 1000}
N = {"quick": 260, "thorough": 12000}
K_SCHED = {"quick": 4, "thorough": 8}

ADVERSARIAL = [
    {"policy": "lowest", "preempt": 1.0},
    {"policy": "highest", "preempt": 1.0},
    {"policy": "roundrobin", "preempt": 1.0},
    {"policy": "run_to_completion", "preempt": 0.0},
    {"policy": "workers_first", "preempt": 1.0},
    {"policy": "main_first", "preempt": 1.0},
]


def scenarios(tier, seed):
    out = []
    for i in range(N[tier]):
        rng = rng_for(seed, PROP, i)
        base = chainsim.random_scenario(rng)
        base["n_process"] = 1
        group = rng.choice(["schedules", "schedules", "seq_vs_par", "seq_vs_par", "chain_count", "elsewhere"])
        g = {"type": group}
        if group in ("schedules", "seq_vs_par"):
            base["n_chain"] = max(2, base["n_chain"])
            g["n_process"] = rng.choice([2, 3, 4, None])
            scheds = []
            for _ in range(K_SCHED[tier]):
                if rng.random() < 0.5:
                    s = dict(rng.choice(ADVERSARIAL))
                else:
                    s = {"policy": "random", "preempt": rng.choice([0.02, 0.2, 0.5, 1.0])}
                s["seed"] = rng.getrandbits(32)
                scheds.append(s)
            g["scheds"] = scheds if group == "schedules" else scheds[:2]
            if group == "seq_vs_par":
                g["n_process_2"] = rng.choice([2, 3, 4, None])
        else:
            base["adapters"] = [] if base["sampler"] != "generic" else None
            base["stager"] = None if rng.random() < 0.7 else base["stager"]
            base["n_chain"] = rng.choice([1, 1, 2, 3])
            # array / momentum-less state inits are covered by a known finding: put most of the weight on
            # inits whose chains must be independent of the run shape, and on every generator family
            if base["sampler"] != "generic" and rng.random() < 0.6:
                base["init"] = "state_mom"
                if base.get("trace") == "tag":
                    base["trace"] = "pos"
            if rng.random() < 0.35:
                base["bitgen"] = rng.choice(["SFC64", "SFC64", "Philox", "MT19937"])
            g["extra"] = rng.choice([1, 2])
            g["n_process"] = rng.choice([1, 1, 2, 3])
            base["sched"]["seed"] = rng.getrandbits(32)
        out.append({"base": base, "group": g})
    return out


def first_diff(a, b, chains):
    """First difference between two output snapshots on the given chains, or None."""
    if (a["traces"] is None) != (b["traces"] is None):
        return "traces None in one run only"
    if a["traces"] is not None:
        if set(a["traces"]) != set(b["traces"]):
            return "trace keys differ"
        for k in sorted(a["traces"]):
            for c in chains:
                if not _eq_nan(a["traces"][k][c], b["traces"][k][c]):
                    return f"traces[{k!r}][chain {c}] differ"
    for tk in sorted(a["stats"]):
        if tk not in b["stats"]:
            return f"stats transition {tk} missing"
        for k in sorted(a["stats"][tk]):
            for c in chains:
                if not _eq_nan(a["stats"][tk][k][c], b["stats"][tk][k][c]):
                    return f"stats[{tk}.{k}][chain {c}] differ"
    for c in chains:
        fa, fb = a["final_states"][c], b["final_states"][c]
        for var in sorted(fa):
            va, vb = fa[var], fb.get(var)
            if (va is None) != (vb is None) or (va is not None and not _eq_nan(va, vb)):
                return f"final_states[{c}].{var} differ"
    return None


def stream_replays(rec):
    seen = {}
    # every momentum draw of the run (initial states, momentum transitions, adapters): the generator
    # state it started from must not have been the start of an earlier draw
    first = {}
    for k, (dg, consumed, task, in_chain) in enumerate(rec.log.mom_draws):
        if not consumed:
            continue
        if dg in first:
            j = first[dg]
            where = lambda t: "inside a chain" if t[3] else "outside the chain loop (initial state / adapter)"  # noqa: E731
            return (f"momentum draw #{k} ({where(rec.log.mom_draws[k])}, task {task}) started from the generator state that momentum draw #{j} "
                    f"({where(rec.log.mom_draws[j])}, task {rec.log.mom_draws[j][2]}) had already started from")
        first[dg] = k
    # generator states from which metric adapters drew the refreshed momenta
    for a in rec.log.adapter:
        if a["ev"] == "finalize" and a.get("rng_before"):
            for c, (dg, adv) in enumerate(zip(a["rng_before"], a.get("rng_advanced", []))):
                if not adv:
                    continue
                if dg in seen:
                    return f"adapter {a['adapter']} finalize drew the refreshed momentum of chain {c} from a generator state already used earlier in the run"
                seen[dg] = -1
    for idx, e in enumerate(rec.log.entries):
        if e["trans"] not in ("momentum_transition", "rw"):
            continue
        prev = seen.get(e["pre_rng"])
        if prev == -1:
            return f"generator state at transition call #{idx} (chain {e['chain']}) repeats the state from which an adapter finalize drew a refreshed momentum"
        if prev is not None:
            p = rec.log.entries[prev]
            return (
                f"generator state at transition call #{idx} (chain {e['chain']}, _sample_chain call {e['call']}) repeats the state at "
                f"call #{prev} (chain {p['chain']}, _sample_chain call {p['call']})"
            )
        seen[e["pre_rng"]] = idx
    return None


def first_rng_states(rec):
    out = {}
    for e in rec.log.entries:
        out.setdefault(e["chain"], e["pre_rng"])
    return out


def _run(scn, stats, keys):
    rec = chainsim.run_scenario_raw(scn)
    stats["runs"] += 1
    stats["transition_calls"] += len(rec.log.entries)
    stats["momentum_draws_observed"] = stats.get("momentum_draws_observed", 0) + sum(1 for d in rec.log.mom_draws if d[1])
    if rec.sim is not None:
        stats["parallel_runs"] += 1
        stats["sched_steps"] += rec.sim.steps
        if scn["n_chain"] >= 2 and rec.outcome == "returned":
            keys.append(digest([{str(k): v for k, v in (rec.assign or {}).items()}, rec.completion]))
    stats["outcomes"][rec.outcome] = stats["outcomes"].get(rec.outcome, 0) + 1
    return rec


def run_scenario(scn):
    warnings.simplefilter("ignore")
    np.seterr(all="ignore")
    base, g = scn["base"], scn["group"]
    stats = {"runs": 0, "parallel_runs": 0, "sched_steps": 0, "transition_calls": 0, "outcomes": {}, "discarded": {},
             "groups": {g["type"]: 1}, "comparisons": 0}
    keys, viols = [], []
    multi_stage = base["n_warm_up"] > 0 and (base["n_main"] > 0 or chainsim.uses_windowed_default(base) or (base.get("stager") or {}).get("type") == "windowed")
    label = f"{g['type']}:{'multi' if multi_stage else 'single'}-stage:adapters={'yes' if base.get('adapters') not in (None, []) else 'no'}"

    def variant(**kw):
        s = copy.deepcopy(base)
        s.update(kw)
        return s

    def check_one(rec):
        d = orc.documented_discard(rec)
        if d:
            stats["discarded"][d] = stats["discarded"].get(d, 0) + 1
            return "discard"
        if rec.outcome != "returned":
            viols.append(violation("no-normal-return", f"{PROP} {rec.outcome}@{rec.error_site or '?'}",
                                   f"sample_chains did not return: {rec.outcome}\n{(rec.error or '')[-800:]}"))
            return "bad"
        r = stream_replays(rec)
        if r:
            viols.append(violation("stream-replay", f"{PROP} stream-replay:n_process={'1' if rec.sim is None else '>1'}:{'multi' if multi_stage else 'single'}-stage", r))
            return "bad"
        return "ok"

    ref = _run(base, stats, keys)
    st = check_one(ref)
    sample = {"group": g, "sampler": base["sampler"], "n_chain": base["n_chain"], "n_warm_up": base["n_warm_up"], "n_main": base["n_main"],
              "adapters": base.get("adapters"), "bitgen": base.get("bitgen"), "init": base.get("init")}
    if st != "ok":
        return {"violations": viols, "stats": stats, "keys": keys, "sample": sample, "evaluations": stats["runs"]}
    chains = list(range(base["n_chain"]))
    if g["type"] in ("schedules", "seq_vs_par"):
        recs = []
        for s in g["scheds"]:
            r = _run(variant(n_process=g["n_process"], sched=s), stats, keys)
            if check_one(r) != "ok":
                break
            recs.append((s, r))
        if g["type"] == "seq_vs_par" and not viols and g.get("n_process_2") is not None:
            r = _run(variant(n_process=g["n_process_2"], sched=g["scheds"][0]), stats, keys)
            if check_one(r) == "ok":
                recs.append((g["scheds"][0], r))
        if not viols and recs:
            # schedules among themselves
            first = recs[0][1]
            for s, r in recs[1:]:
                stats["comparisons"] += 1
                d = first_diff(first.outputs, r.outputs, chains)
                if d:
                    viols.append(violation("schedule-dependence", f"{PROP} schedule-dependence:{'multi' if multi_stage else 'single'}-stage",
                                           f"two simulated parallel runs of the same seed differ: {d}", sched=s))
                    break
            if g["type"] == "seq_vs_par" and not viols:
                stats["comparisons"] += 1
                d = first_diff(ref.outputs, first.outputs, chains)
                if d:
                    viols.append(violation("process-count-dependence",
                                           f"{PROP} process-count-dependence:{'multi' if multi_stage else 'single'}-stage",
                                           f"n_process=1 and n_process={g['n_process']} runs of the same seed differ: {d}"))
    else:
        m = base["n_chain"]
        if g["type"] == "chain_count":
            other = variant(n_chain=m + g["extra"], n_process=g["n_process"])
            cls = "chain-count-dependence"
        else:
            if m < 2:
                base2 = variant(n_chain=2)
                ref = _run(base2, stats, keys)
                if check_one(ref) != "ok":
                    return {"violations": viols, "stats": stats, "keys": keys, "sample": sample, "evaluations": stats["runs"]}
                m = 2
                other = copy.deepcopy(base2)
            else:
                other = variant()
            other["init_variants"] = [0] + [7 + c for c in range(1, m)]
            other["n_process"] = g["n_process"]
            chains = [0]
            cls = "start-dependence"
        if g["type"] == "chain_count":
            chains = list(range(m))
        r = _run(other, stats, keys)
        if check_one(r) == "ok":
            stats["comparisons"] += 1
            fa, fb = first_rng_states(ref), first_rng_states(r)
            moved = [c for c in chains if c in fa and c in fb and fa[c] != fb[c]]
            d = first_diff(ref.outputs, r.outputs, chains)
            if moved:
                viols.append(violation(
                    "chain-stream-moves",
                    f"{PROP} chain-stream-depends-on-run-shape:{g['type']}:sampler={'generic' if base['sampler']=='generic' else 'hmc'}:init={base.get('init')}",
                    f"the generator state with which chains {moved} make their first transition differs between the two runs ({g}); outputs differ: {d}"))
            elif d:
                viols.append(violation(cls, f"{PROP} {cls}:sampler={'generic' if base['sampler']=='generic' else 'hmc'}:init={base.get('init')}",
                                       f"chains {chains} differ between the two runs ({g}): {d}"))
    sample["label"] = label
    return {"violations": viols, "stats": stats, "keys": keys, "sample": sample, "evaluations": stats["runs"]}


def minimise(scn, viol, still_fails):
    cur = copy.deepcopy(scn)

    def try_base(key, val):
        nonlocal cur
        if cur["base"].get(key) == val:
            return
        cand = copy.deepcopy(cur)
        cand["base"][key] = val
        if still_fails(cand):
            cur = cand

    if "scheds" in cur["group"]:
        for k in range(len(cur["group"]["scheds"]) - 1, 0, -1):
            cand = copy.deepcopy(cur)
            del cand["group"]["scheds"][k]
            if len(cand["group"]["scheds"]) >= 1 and still_fails(cand):
                cur = cand
        for k in range(len(cur["group"]["scheds"])):
            cand = copy.deepcopy(cur)
            cand["group"]["scheds"][k] = {"policy": "lowest", "preempt": 1.0, "seed": 0}
            if still_fails(cand):
                cur = cand
    for key, vals in (("n_chain", [2, 1]), ("n_warm_up", [0, 1, 2]), ("n_main", [0, 1, 2]), ("stager", [None]), ("adapters", [[]]),
                      ("trace", ["pos"]), ("storage", ["mem"]), ("bitgen", ["PCG64"]), ("trace_warm_up", [False])):
        for val in vals:
            try_base(key, val)
    return cur
