"""C02 — every integrator step is time-reversible or fails loudly (engine E3 monitors)."""

from __future__ import annotations

import copy
import warnings

import numpy as np

from engines import faultsim as fs
from models import hooks, zoo
from simkit.core import digest, rng_for, violation

PROP = "C02"
LEVEL = "exploration"
RULE = (
    "seeded chains on integrator x compatible system x solver pairs with step sizes pushed into failure regimes, "
    "randomised solver budgets/tolerances and deterministic NaN/inf regions of model functions; every integrator step "
    "issued by the real transitions is monitored: input state bytes unchanged (also on failure), a returned state must "
    "reverse to its input (step, flip, step) within tolerance unless the reverse step itself raises an IntegratorError "
    "(inconclusive), only IntegratorError may be raised by fault-free steps; plus direct n-step / flip / n-step lattice "
    "histories (n<=8) with every revisited lattice point compared. distinct_nontrivial = distinct (system kind, metric, "
    "integrator, solver, knobs, step size) with >=1 reversal check and, for implicit ones, >=1 solver failure or late convergence."
)
ASSUMPTIONS = [
    "tolerance: explicit 1e-10*(1+|z|), implicit/constrained 100*reverse_check_tol*(1+|z|), calibrated on the pinned tree (worst 2.9e-15 / 1.1e-9)",
    "steps with non-finite input/output or magnitude >1e8 are out of floating-point range and not judged",
    "the for-all-states clause is sampled along chains; the fails-loudly clause is what fault injection decides",
]
REAL_VS_STUB = "real: mici integrators, solvers, systems, transitions; stub: none (model functions get deterministic bad regions)"
WALL_CAP_S = {"quick": 300, "thorough": 3000}
MIN_EVALUATIONS = {"quick": 100, "thorough": 1000}
N = {"quick": 2400, "thorough": 60000}


def _second_system_spec(spec, rng):
    from engines import histsim

    return histsim.second_spec(spec, rng)


def _translate(spec, rng):
    """Swarm knob: the same model far from the origin (coordinates of 1e3 .. 3e8): absolute tolerances and
    rounding then act on very different scales.  Constrained systems keep the constrained coordinates in place
    (the wavy curve constrains coordinates 0 and 1 only)."""
    mag = rng.choice([1e3, 1e5, 1e7, 3e8])
    if spec["kind"] in ("con", "gcon"):
        spec["constraint"] = "wavy"
        if spec["dim"] < 3:
            spec["dim"] = 3
            t = spec["target"]
            spec["target"] = zoo.quartic_from_seed(rng, 3, offset=t.get("offset", 0.0), scale=t.get("scale", 1.0))
            spec["metric"] = zoo.random_metric_spec(rng, 3, (spec["metric"]["type"],))
        spec["target"]["center"] = [0.0, 0.0] + [mag * rng.choice([-1.0, 1.0]) for _ in range(spec["dim"] - 2)]
    else:
        spec["target"]["center"] = [mag * rng.choice([-1.0, 1.0]) for _ in range(spec["dim"])]
    spec["translated"] = mag


def scenarios(tier, seed):
    out = []
    kinds = list(zoo.SYSTEM_KINDS)
    for i in range(N[tier]):
        rng = rng_for(seed, PROP, i)
        kind = kinds[i % len(kinds)]
        stress = i % 5 == 4  # constrained stress family: curved manifolds, several inner steps, large steps
        if stress:
            kind = rng.choice(["con", "gcon"])
        spec = zoo.random_system_spec(rng, kinds=(kind,), dims=(1, 2, 3))
        if rng.random() < (0.3 if stress else 0.1) and kind in ("euclid", "con"):  # Gaussian-split systems have the origin built into their h2 flow
            _translate(spec, rng)
        ispec = zoo.random_integrator_spec(rng, spec["kind"], step_size=rng.choice([0.02, 0.1, 0.3, 0.7]), allow_implicit_for_tractable=rng.random() < 0.4)
        if stress:
            ispec["n_inner_step"] = rng.choice([2, 3, 4])
            ispec["step_size"] = rng.choice([0.4, 0.7, 1.0, 1.5])
        if ispec["type"] in ("implicit_leapfrog", "implicit_midpoint"):
            if rng.random() < 0.5:
                ispec["solver_kwargs"] = {"max_iters": rng.choice([1, 2, 3, 6, 15, 100]), "convergence_tol": rng.choice([1e-9, 1e-9, 1e-6, 1e-11])}
            if rng.random() < 0.3:
                ispec["reverse_check_tol"] = rng.choice([2e-8, 1e-5, 1e-10])
        if ispec["type"] == "constrained":
            if rng.random() < 0.5:
                ispec["solver_kwargs"] = {"max_iters": rng.choice([1, 2, 3, 8, 50]), "constraint_tol": rng.choice([1e-9, 1e-9, 1e-7])}
                if ispec["solver"] == "newton_ls":
                    ispec["solver_kwargs"]["max_line_search_iters"] = rng.choice([0, 1, 2, 10])
            if rng.random() < 0.3:
                ispec["reverse_check_tol"] = rng.choice([2e-8, 1e-5, 1e-10])
        t = rng.choice(["static", "random", "multinomial", "slice"])
        ts = {"type": t}
        if t == "static":
            ts["n_step"] = rng.choice([1, 2, 4])
        elif t == "random":
            ts["n_step_range"] = [1, rng.choice([3, 5])]
        else:
            ts.update(max_tree_depth=rng.choice([1, 2, 3]), criterion=rng.choice(["euclidean", "riemannian"]), do_extra_subtree_checks=rng.random() < 0.5)
        region = None
        if rng.random() < 0.3:
            fn = rng.choice(["neg_log_dens", "grad_neg_log_dens", "metric_func", "vjp_metric_func", "constr", "jacob_constr", "hess_neg_log_dens"])
            region = {"fn": fn, "axis": rng.randrange(3), "offset": rng.choice([-0.7, -0.4, 0.4, 0.7]), "kind": rng.choice(["nan", "+inf", "nan_entry", "inf_entry"])}
        out.append({
            "system": spec, "integrator": ispec, "transition": ts, "n_iter": rng.choice([3, 5, 8]), "chain_seed": rng.getrandbits(40),
            "start_variant": rng.randrange(3), "mom_resample_coeff": 1.0,
            "step_sizes": rng.choice([None, [0.05, 0.3, 1.0, 2.5], [0.5, 0.9, 1.4], [0.01, 5.0]]) if not stress else rng.choice([None, [0.6, 1.2], [0.9, 1.6, 0.4]]),
            "region": region, "check_reversal": True, "lattice_n": rng.choice([1, 2, 3, 5, 8]),
            "handover": _second_system_spec(spec, rng) if rng.random() < 0.15 else None,
        })
    return out


def resolve_region(scn):
    r = scn.get("region")
    if not r:
        return None
    import random as _random

    start = zoo.start_position(scn["system"], _random.Random(scn["chain_seed"]), variant=scn.get("start_variant", 0))
    axis = r["axis"] % len(start)
    thr = float(start[axis]) + r["offset"]
    return {"fn": r["fn"], "axis": axis, "thr": thr, "side": 1 if r["offset"] > 0 else -1, "kind": r["kind"]}


def lattice_history(scn, region, viols, stats):
    """n steps, flip, n steps on the bare integrator; every revisited lattice point compared."""
    import mici
    from mici.states import ChainState
    import random as _random

    ctx = fs.Ctx((), region, None)
    hooks.install(ctx.handler)
    try:
        system, model = zoo.build_system(scn["system"], hooked=True)
        integ = zoo.build_integrator(system, scn["integrator"])
        explicit = scn["integrator"]["type"] in ("leapfrog", "bcss2", "bcss3", "bcss4", "symcomp")
        tol1 = 1e-10 if explicit else 100 * scn["integrator"].get("reverse_check_tol", 2e-8)
        r = _random.Random(scn["chain_seed"])
        pos = zoo.start_position(scn["system"], r, variant=scn.get("start_variant", 0))
        st = ChainState(pos=np.array(pos, dtype=float), mom=None, dir=r.choice([1, -1]))
        try:
            st.mom = system.sample_momentum(st, np.random.default_rng(scn["chain_seed"]))
        except (mici.errors.Error, ValueError):
            return
        system2 = None
        if scn.get("handover"):
            # the start state arrives from ANOTHER system object of the same class (e.g. a prior-model chain handing
            # its state to a posterior-model integrator) and carries that system's cached values
            try:
                with fs.paused(ctx):
                    system2, _ = zoo.build_system(scn["handover"], hooked=True)
                    for meth in ("h", "dh_dpos", "dh_dmom"):
                        getattr(system2, meth)(st)
                stats["handover_histories"] = stats.get("handover_histories", 0) + 1
            except (mici.errors.Error, ValueError, np.linalg.LinAlgError):
                pass
        n = scn["lattice_n"]
        fwd = [st]
        snap0 = fs.bytes_of(st)
        try:
            for _ in range(n):
                fwd.append(integ.step(fwd[-1]))
            back = fwd[-1].copy()
            back.dir = -back.dir
            rev = [back]
            for _ in range(n):
                rev.append(integ.step(rev[-1]))
        except mici.errors.IntegratorError:
            stats["lattice_inconclusive"] = stats.get("lattice_inconclusive", 0) + 1
            return
        except Exception as e:  # noqa: BLE001
            if region is None:
                viols.append(violation("foreign-exception", f"{PROP} foreign-exception:{type(e).__name__}", f"fault-free integrator step raised {type(e).__name__}: {e}"))
            return
        if fs.bytes_of(st) != snap0:
            viols.append(violation("input-modified", f"{PROP} input-modified", "lattice history modified its start state"))
        stats["lattice_histories"] = stats.get("lattice_histories", 0) + 1
        for k in range(n + 1):
            a, b = fwd[n - k], rev[k]
            za = np.concatenate([np.ravel(a.pos), np.ravel(a.mom)])
            zb = np.concatenate([np.ravel(b.pos), np.ravel(b.mom)])
            cz = fs.translation_vector(scn["system"]["target"].get("center"), za.size)
            if not (np.all(np.isfinite(za)) and np.all(np.isfinite(zb))) or max(np.abs(za - cz).max(), np.abs(zb - cz).max()) > 1e8:
                return
            err = float(np.max(np.abs(za - zb)))
            zmax = max(float(np.max(np.abs(np.concatenate([np.ravel(s_.pos), np.ravel(s_.mom)]) - cz))) for s_ in fwd)
            lim = max(k, 1) * (tol1 * (1.0 + zmax) * (10.0 if not explicit else 1.0) + 1e-11 * float(np.max(np.abs(cz))))
            if err > lim:
                L = fs.sensitivity(integ, fwd[-1], np.concatenate([np.ravel(rev[k].pos), np.ravel(rev[k].mom)]), n=k) if k else 1.0
                if L is None:
                    stats["lattice_inconclusive"] = stats.get("lattice_inconclusive", 0) + 1
                    return
                stats["lattice_amplified"] = stats.get("lattice_amplified", 0) + 1
                lim *= max(1.0, L)
            if err > lim:
                viols.append(violation("lattice-not-reversible", f"{PROP} lattice-not-reversible:{type(integ).__name__}",
                                       f"{type(integ).__name__}: {n} steps, flip, {k} steps back is {err:.3e} away from lattice point {n - k} (limit {lim:.1e})"))
                return
    finally:
        hooks.clear()


def run_scenario(scn):
    warnings.simplefilter("ignore")
    np.seterr(all="ignore")
    region = resolve_region(scn)
    ctx, out = fs.run_chain(scn, region=region, judge_c12=False)
    viols = []
    c = ctx.counters
    stats = {"chains": 1, "steps": c.get("steps", 0), "steps_ok": c.get("steps_ok", 0), "reversal_checks": c.get("reversal_checks", 0),
             "reversal_checks_translated": c.get("reversal_checks_translated", 0), "translated_chains": int(bool(scn["system"].get("translated"))),
             "reversal_inconclusive": c.get("reversal_inconclusive", 0), "reversal_amplified": c.get("reversal_amplified", 0), "reversal_out_of_range": c.get("reversal_out_of_range", 0),
             "step_errors": {k.split(":", 1)[1]: v for k, v in c.items() if k.startswith("step_errors:")},
             "fired": {k.split(":", 1)[1]: v for k, v in c.items() if k.startswith("fired:")},
             "fp_solves": c.get("fp_solves", 0), "proj_solves": c.get("proj_solves", 0),
             "escaped_non_integrator_error": 0}
    e18 = c.get("max_reversal_err_e18", 0)
    if e18:
        import math

        stats["reversal_err_decades"] = {f"1e{int(math.floor(math.log10(e18 / 1e18)))}": 1}
    for x in ctx.violations:
        if x["cls"] in ("input-modified", "not-reversible", "reversal-foreign-exception", "reversibility-failure-not-raised", "solver-failure-swallowed"):
            y = dict(x)
            y["sig"] = f"{PROP} {x['sig']}"
            viols.append(y)
    if out["escaped"] and region is None:
        exc, site, msg = out["escaped"]
        stats["escaped_non_integrator_error"] = 1
        viols.append(violation("foreign-exception", f"{PROP} foreign-exception:{exc}@{site}", f"fault-free chain: {exc} raised through an integrator step ({site}): {msg}"))
    lattice_history(scn, region, viols, stats)
    keys = []
    implicit = scn["integrator"]["type"] not in ("leapfrog", "bcss2", "bcss3", "bcss4", "symcomp")
    if stats["reversal_checks"] and (not implicit or stats["step_errors"] or stats["fp_solves"] + stats["proj_solves"] > 0):
        keys.append(digest([scn["system"]["kind"], (scn["system"].get("metric") or {}).get("type"), scn["integrator"], scn.get("step_sizes")]))
    sample = {"system": scn["system"]["kind"], "integrator": scn["integrator"], "transition": scn["transition"]["type"], "step_sizes": scn.get("step_sizes"),
              "region": region, "reversal_checks": stats["reversal_checks"], "step_errors": stats["step_errors"]}
    seen, uniq = set(), []
    for x in viols:
        if x["sig"] not in seen:
            seen.add(x["sig"])
            uniq.append(x)
    return {"violations": uniq, "stats": stats, "keys": keys, "sample": sample, "evaluations": 1}


def minimise(scn, viol, still_fails):
    cur = copy.deepcopy(scn)
    for key, vals in (("region", [None]), ("step_sizes", [None]), ("n_iter", [1, 2]), ("lattice_n", [1, 2])):
        for val in vals:
            if cur.get(key) == val:
                continue
            cand = copy.deepcopy(cur)
            cand[key] = val
            if still_fails(cand):
                cur = cand
                break
    return cur
