"""C17 — adapters compute the estimators they document for any history (E4 direct drive + E2 runs)."""

from __future__ import annotations

import copy
import math
import warnings

import numpy as np

from engines import chainoracle as orc
from engines import chainsim
from models import zoo
from simkit.core import digest, rng_for, violation

PROP = "C17"
LEVEL = "exploration"
RULE = (
    "per scenario: (a) direct drive of the real adapters through initialize/update/finalize with seeded histories "
    "(positions of length 2..1500 with offsets up to 1e8 x spread, partitions into 1-6 chains incl. single-sample parts, "
    "permuted chain order, all reducers and regularisation settings; acceptance-statistic sequences incl. constant 0/1) "
    "checked after every update and after finalize against batch reference formulas; (b) one simulated sample_chains "
    "run whose recorded adapter events are re-derived from the logged positions / acceptance statistics (pooled over "
    "chains as the simulated schedule produced them), incl. log-2 crossing of the initial step size and momentum refresh. "
    "distinct_nontrivial = distinct (adapter, n_chain-partition shape, settings, offset class) histories with >=2 chains or >=3 samples."
)
ASSUMPTIONS = [
    "tolerance for online vs batch moments: 1e4*eps*max(1, |offset|/spread)*(1+n/200), calibrated on the pinned tree (worst seen 3.6e3*eps*cond)",
    "chain lists containing empty per-chain adapter states are not generated (a partition has non-empty parts)",
    "acceptance histories are limited to 1500 updates (all-zero histories beyond ~2100 updates underflow the step size to 0)",
]
REAL_VS_STUB = "real: mici adapters, systems, integrators, samplers; stub (part b only): pool, queues, scheduler"
WALL_CAP_S = {"quick": 300, "thorough": 3000}
MIN_EVALUATIONS = {"quick": 300, "thorough": 3000}
N = {"quick": 400, "thorough": 20000}
N_DIRECT = 8
EPS = np.finfo(float).eps


def scenarios(tier, seed):
    out = []
    for i in range(N[tier]):
        rng = rng_for(seed, PROP, i)
        scn = chainsim.random_scenario(rng)
        if scn["sampler"] == "generic":
            scn = chainsim.random_scenario(rng_for(seed, PROP, i, "b"))
        if scn["sampler"] != "generic" and i % 3 == 0:
            # constrained systems with metric adapters: the refreshed momenta must lie in the cotangent
            # space of the *new* metric (state caches hold quantities computed under the old one)
            spec = zoo.random_system_spec(rng, kinds=("con", "gcon"), dims=(3,))
            scn["system"] = spec
            scn["integrator"] = zoo.random_integrator_spec(rng, spec["kind"], step_size=rng.choice([0.05, 0.2]))
            if scn["sampler"] in ("multinomial", "slice"):
                scn["sampler_kwargs"]["max_tree_depth"] = min(2, scn["sampler_kwargs"]["max_tree_depth"])
        if scn["sampler"] != "generic":
            metric_ok = scn["system"]["kind"] in ("euclid", "gauss", "con", "gcon")
            red = rng.choice(["arith", "geom", "min"])
            ch = [[{"type": "dual", "reducer": red}], ["dual"], "default"]
            if metric_ok:
                ro, rs = rng.choice([1, 5, 5, 20]), rng.choice([1e-3, 1e-3, 0.5])
                ch += [
                    [{"type": "dual", "reducer": red}, {"type": "var", "reg_iter_offset": ro, "reg_scale": rs}],
                    [{"type": "dual", "reducer": red}, {"type": "cov", "reg_iter_offset": max(ro, 1), "reg_scale": rs}],
                    [{"type": "var", "reg_iter_offset": ro, "reg_scale": rs}, "dual"],
                    [{"type": "cov", "reg_iter_offset": max(ro, 1), "reg_scale": rs}],
                ] * 2
            scn["adapters"] = rng.choice(ch)
            scn["n_warm_up"] = rng.choice([3, 5, 8, 12, 20, 30, 45])
            scn["n_main"] = rng.choice([0, 1, 2])
        scn["direct_seed"] = rng.getrandbits(40)
        out.append(scn)
    return out


# ---- reference models ----------------------------------------------------------------


def ref_pooled(positions, reg_iter_offset, reg_scale, full_cov, always_reg=False):
    x = np.asarray(positions, dtype=np.longdouble)
    n = x.shape[0]
    mean = x.mean(axis=0)
    d = x - mean
    if full_cov:
        est = (d.T @ d) / (n - 1)
    else:
        est = (d**2).sum(axis=0) / (n - 1)
    est = np.asarray(est, dtype=float)
    if always_reg or (reg_iter_offset is not None and reg_iter_offset != 0):
        w = n / (reg_iter_offset + n)
        est = est * w
        add = reg_scale * (reg_iter_offset / (reg_iter_offset + n))
        if full_cov:
            est = est + add * np.eye(est.shape[0])
        else:
            est = est + add
    return est


def ref_dual(accepts, reg_target, target=0.8, gamma=0.05, kappa=0.75, t0=10):
    hbar, log_bar = 0.0, 0.0
    logs = []
    for m, a in enumerate(accepts, start=1):
        w = 1.0 / (m + t0)
        hbar = (1 - w) * hbar + w * (target - a)
        log_eps = reg_target - math.sqrt(m) / gamma * hbar
        sw = m ** (-kappa)
        log_bar = sw * log_eps + (1 - sw) * log_bar
        logs.append(log_eps)
    return logs, log_bar


def safety_reducer(log_step_sizes):
    """A user-supplied reducer (module level, so it pickles): 0.8 x the smallest step size - for which
    reducer([x]) != exp(x), so a single chain is NOT a case that can skip the reducer."""
    return 0.8 * math.exp(min(log_step_sizes))


def reduce_ref(name, logs):
    if name == "custom":
        return 0.8 * math.exp(min(logs))
    if name == "arith":
        return sum(math.exp(x) for x in logs) / len(logs)
    if name == "geom":
        return math.exp(sum(logs) / len(logs))
    return math.exp(min(logs))


def tol_for(positions):
    x = np.asarray(positions, dtype=float)
    spread = np.maximum(x.std(axis=0), 1e-300)
    off = np.abs(x.mean(axis=0))
    cond = float(np.max(np.maximum(1.0, off / spread)))
    return 1e4 * EPS * cond * (1 + x.shape[0] / 200.0), cond


# ---- (a) direct drive ------------------------------------------------------------------


class _T:
    """Minimal transition carrying a real system and integrator."""

    def __init__(self, system, integrator):
        self.system, self.integrator = system, integrator


def make_positions(rng, dim, n):
    off_class = rng.choice([0, 0, 1, 1e3, 1e6, 1e8])
    spread = np.array([rng.choice([1e-3, 0.1, 1.0, 30.0]) for _ in range(dim)])
    g = np.random.default_rng(rng.getrandbits(40))
    mix = g.standard_normal((dim, dim)) if dim > 1 and rng.random() < 0.5 else np.eye(dim)
    x = (g.standard_normal((n, dim)) @ mix.T) * spread
    offset = off_class * spread * np.array([rng.choice([-1, 1]) for _ in range(dim)])
    return x + offset, off_class


def partition(rng, n, k):
    k = max(1, min(k, n))
    if k == 1:
        return [list(range(n))]
    style = rng.choice(["even", "random", "unequal"])
    if style == "even":
        cuts = [round(i * n / k) for i in range(1, k)]
    elif style == "random":
        cuts = sorted(rng.sample(range(1, n), k - 1))
    else:  # k-1 single-sample parts and one big one
        cuts = list(range(1, k))
    cuts = sorted(set(c for c in cuts if 0 < c < n))
    idx = list(range(n))
    parts, prev = [], 0
    for c in cuts + [n]:
        parts.append(idx[prev:c])
        prev = c
    parts = [p for p in parts if p]
    rng.shuffle(parts)
    return parts


def direct_metric_history(rng, keys):
    import mici
    from mici.states import ChainState
    from models import zoo

    full_cov = rng.random() < 0.5
    dim = rng.choice([1, 2, 3, 4])
    n = rng.choice([2, 2, 3, 4, 5, 8, 13, 30, 100, 400, 1500])
    x, off_class = make_positions(rng, dim, n)
    parts = partition(rng, n, rng.choice([1, 1, 2, 3, 4, 6, 12]))  # 12: more chains than any small-batch threshold
    ro = rng.choice([0, 1, 5, 5, 50])
    if full_cov and ro == 0 and n < 4 * dim:
        ro = 5  # an unregularised covariance of few samples is singular (documented: only if guaranteed positive definite)
    rs = rng.choice([1e-3, 1e-3, 1.0])
    cls = mici.adapters.OnlineCovarianceMetricAdapter if full_cov else mici.adapters.OnlineVarianceMetricAdapter
    adapter = cls(reg_iter_offset=ro, reg_scale=rs)
    target = zoo.Quartic(np.eye(dim), 0.0, np.zeros(dim))
    system = mici.systems.EuclideanMetricSystem(target.nld, grad_neg_log_dens=target.grad)
    trans = _T(system, mici.integrators.LeapfrogIntegrator(system, 0.1))
    tol, cond = tol_for(x)
    # single-precision chain positions (e.g. initial states coming from a float32 pipeline): the adapters allocate
    # their accumulators like the position, so all tolerances scale with the precision ratio F
    F = 1.0
    # (a rank-deficient single-precision covariance plus a tiny regularisation is not numerically positive definite:
    # full covariances are only driven in single precision with n >= 4 dim samples)
    if rng.random() < 0.15 and tol * 2.0**29 < 0.01 and (not full_cov or n >= 4 * dim):
        F = 2.0**29
        x = x.astype(np.float32)
        tol *= F
    desc = {"adapter": cls.__name__, "dim": dim, "n": n, "parts": [len(p) for p in parts], "reg_iter_offset": ro, "reg_scale": rs,
            "offset_class": off_class, "dtype": str(x.dtype)}
    states, chain_states, rngs = [], [], []
    for pi, part in enumerate(parts):
        cs = ChainState(pos=x[part[0]].copy(), mom=np.zeros(dim), dir=1)
        st = adapter.initialize(cs, trans)
        check_every = 1 if len(part) <= 40 else max(1, len(part) // 7)
        for j, ix in enumerate(part, start=1):
            cs.pos = x[ix].copy()
            adapter.update(st, cs, {"accept_stat": 0.5}, trans)
            if j % check_every == 0 or j == len(part):
                sub = x[part[:j]]
                if st["iter"] != j:
                    return violation("online-count", f"{PROP} online-count", f"{desc}: iter={st['iter']} after {j} updates")
                scale = np.maximum(np.abs(sub).max(axis=0), 1e-300)
                if np.any(np.abs(st["mean"] - np.asarray(sub, dtype=float).mean(axis=0)) > F * 1e3 * EPS * scale * (1 + j / 200)):
                    return violation("online-mean", f"{PROP} online-mean:{cls.__name__}", f"{desc}: running mean after {j} updates {st['mean']} != {sub.mean(axis=0)}")
                if j >= 2:
                    d = np.asarray(sub, dtype=np.longdouble) - np.asarray(sub, dtype=np.longdouble).mean(axis=0)
                    if full_cov:
                        ref = np.asarray(d.T @ d, dtype=float)
                        got = st["sum_diff_outer"]
                        den = np.sqrt(np.outer(np.diag(ref), np.diag(ref))) + 1e-300
                    else:
                        ref = np.asarray((d**2).sum(axis=0), dtype=float)
                        got = st["sum_diff_sq"]
                        den = ref + 1e-300
                    ltol, _ = tol_for(sub)
                    ltol *= F
                    if np.any(np.abs(got - ref) / den > ltol):
                        return violation("online-m2", f"{PROP} online-m2:{cls.__name__}",
                                         f"{desc}: running sum of squared deviations after {j} updates rel.err {np.max(np.abs(got - ref) / den):.2e} > {ltol:.2e}")
        states.append(st)
        chain_states.append(cs)
        rngs.append(np.random.default_rng(rng.getrandbits(40)))
    rng_copies = copy.deepcopy(rngs)
    single = len(parts) == 1 and rng.random() < 0.5
    try:
        if single:
            adapter.finalize(states[0], chain_states[0], trans, rngs[0])
        else:
            adapter.finalize(states, chain_states, trans, rngs)
    except Exception as e:  # noqa: BLE001
        return violation("finalize-raised", f"{PROP} finalize-raised:{cls.__name__}:{type(e).__name__}", f"{desc}: finalize raised {type(e).__name__}: {e}")
    ref = ref_pooled(np.asarray(x, dtype=float), ro, rs, full_cov, always_reg=full_cov)
    metric = system.metric
    m_arr = np.array(copy.deepcopy(metric).array)
    if full_cov:
        resid = np.abs(m_arr @ ref - np.eye(dim)).max()
        c = np.linalg.cond(ref)
        lim = tol * max(1.0, c) * dim
        bad = resid > lim
        detail = f"|M C - I| = {resid:.2e} > {lim:.2e}"
    else:
        got = 1.0 / np.diag(m_arr)
        off = np.abs(m_arr - np.diag(np.diag(m_arr))).max()
        rel = np.max(np.abs(got - ref) / ref)
        bad = rel > tol or off != 0
        detail = f"rel.err of 1/diag(metric) vs regularised pooled variance {rel:.2e} > {tol:.2e} (off-diagonal {off})"
    if bad:
        return violation("metric-estimator", f"{PROP} metric-estimator:{cls.__name__}", f"{desc}: {detail}")
    # momenta refreshed under the new metric, one independent draw per chain from its own generator
    for cs, r0, r1 in zip(chain_states, rng_copies, rngs):
        fresh = ChainState(pos=cs.pos.copy(), mom=None, dir=1)
        want = system.sample_momentum(fresh, r0)
        if cs.mom is None or not np.array_equal(cs.mom, want):
            return violation("momentum-refresh", f"{PROP} momentum-refresh:{cls.__name__}", f"{desc}: momentum after finalize is not the draw under the new metric")
        if r0.bit_generator.state != r1.bit_generator.state:
            return violation("momentum-refresh", f"{PROP} momentum-refresh-stream:{cls.__name__}", f"{desc}: generator advanced differently from one momentum draw")
    L = np.array(copy.deepcopy(metric).sqrt.array) if hasattr(metric.sqrt, "array") else None
    if L is not None and np.abs(L @ L.T - m_arr).max() > (1e-8 if F == 1.0 else 1e-5) * max(1.0, np.abs(m_arr).max()):
        return violation("metric-sqrt", f"{PROP} metric-sqrt", f"{desc}: sqrt of adapted metric inconsistent")
    if len(parts) >= 2 or n >= 3:
        keys.append(digest([cls.__name__, sorted(len(p) for p in parts), ro, rs, off_class, dim]))
    return None


def _other_stat(stats):
    return stats["other"]


def direct_dual_history(rng, keys):
    import mici
    from mici.states import ChainState
    from models import zoo

    dim = rng.choice([1, 2, 3])
    # many chains with small step sizes: sums of per-chain log step sizes far outside exp's range (-745 .. 709)
    many = rng.random() < 0.06
    spec = {"kind": "euclid", "dim": dim, "tuple_conv": False, "metric": {"type": "identity"},
            "target": zoo.quartic_from_seed(rng, dim, scale=rng.choice([0.1, 1.0, 30.0]) if not many else rng.choice([1e6, 1e8]))}
    restricted = rng.random() < 0.35 and not many
    if restricted:
        # restricted support: energies beyond a bound are NaN (no error raised), so trial steps of the
        # initial step-size search can produce NaN energy changes; the bound is set per chain below
        spec["target"]["nan_beyond"] = 1e9
    system, model = zoo.build_system(spec)
    integ = mici.integrators.LeapfrogIntegrator(system, None)
    trans = _T(system, integ)
    red = rng.choice(["arith", "geom", "min", "custom"])
    A = mici.adapters
    reducer = {"arith": A.arithmetic_mean_log_step_size_reducer, "geom": A.geometric_mean_log_step_size_reducer, "min": A.min_log_step_size_reducer,
               "custom": safety_reducer}[red]
    kw = {"adapt_stat_target": rng.choice([0.6, 0.8, 0.9]), "log_step_size_reg_coefficient": rng.choice([0.05, 0.2]),
          "iter_decay_coeff": rng.choice([0.6, 0.75, 1.0]), "iter_offset": rng.choice([0, 10, 25])}
    fixed_target = rng.choice([None, None, 0.0, -1.0])
    custom_stat = rng.random() < 0.3  # non-default controlled statistic: the update is fed a decoy accept_stat as well
    extra = {"adapt_stat_func": _other_stat} if custom_stat else {}
    adapter = A.DualAveragingStepSizeAdapter(log_step_size_reducer=reducer, log_step_size_reg_target=fixed_target, **kw, **extra)
    n_chain = rng.choice([1, 1, 2, 3, 5]) if not many else rng.choice([150, 400])
    desc = {"adapter": "dual", "reducer": red, "n_chain": n_chain, **kw, "reg_target": fixed_target, "custom_stat": custom_stat}
    states, smoothed = [], []
    lens = []
    for c in range(n_chain):
        g = np.random.default_rng(rng.getrandbits(40))
        cs = ChainState(pos=g.standard_normal(dim), mom=None, dir=1)
        cs.mom = system.sample_momentum(cs, g)
        if restricted:
            cs.mom[0] = abs(cs.mom[0]) + 0.3  # heading towards the boundary
            model.nan_beyond = float(cs.pos[0]) + rng.choice([0.2, 0.6, 1.5, 4.0])
        try:
            st = adapter.initialize(cs, trans)
        except mici.errors.AdaptationError:
            return None
        r = integ.step_size
        if not (r > 0 and math.isfinite(r)):
            return violation("init-step-size", f"{PROP} init-step-size", f"{desc}: initial step size {r}")
        probe = chainsim._probe_init_step_size(cs, trans)  # noqa: SLF001
        v = judge_probe(probe, desc)
        if v:
            return v
        reg_t = fixed_target if fixed_target is not None else math.log(10 * r)
        if abs(st["log_step_size_reg_target"] - reg_t) > 1e-12 * max(1, abs(reg_t)):
            return violation("reg-target", f"{PROP} reg-target", f"{desc}: regularisation target {st['log_step_size_reg_target']} != {reg_t}")
        n = rng.choice([1, 2, 3, 10, 50, 300, 1500]) if not many else rng.choice([1, 2, 5])
        lens.append(n)
        style = rng.choice(["uniform", "zeros", "ones", "beta", "alternating"])
        if style == "uniform":
            acc = g.uniform(size=n)
        elif style == "zeros":
            acc = np.zeros(n)
        elif style == "ones":
            acc = np.ones(n)
        elif style == "beta":
            acc = g.beta(5, 1, size=n)
        else:
            acc = np.array([(i % 2) * 1.0 for i in range(n)])
        logs, log_bar = ref_dual(acc, reg_t, kw["adapt_stat_target"], kw["log_step_size_reg_coefficient"], kw["iter_decay_coeff"], kw["iter_offset"])
        for m, a in enumerate(acc, start=1):
            adapter.update(st, cs, {"accept_stat": 1.0 - float(a), "other": float(a)} if custom_stat else {"accept_stat": float(a)}, trans)
            eps = integ.step_size
            if not (eps > 0 and math.isfinite(eps)):
                return violation("step-size-range", f"{PROP} step-size-range", f"{desc}: step size {eps} after {m} updates ({style})")
            if abs(math.log(eps) - logs[m - 1]) > 1e-9 * max(1.0, abs(logs[m - 1])):
                return violation("dual-recursion", f"{PROP} dual-recursion", f"{desc}: log step size {math.log(eps)} != recursion {logs[m - 1]} at update {m} ({style})")
        if abs(st["smoothed_log_step_size"] - log_bar) > 1e-9 * max(1.0, abs(log_bar)):
            return violation("dual-smoothed", f"{PROP} dual-smoothed", f"{desc}: smoothed iterate {st['smoothed_log_step_size']} != {log_bar}")
        states.append(st)
        smoothed.append(log_bar)
    if n_chain == 1 and rng.random() < 0.5:
        adapter.finalize(states[0], None, trans, None)
        want = math.exp(smoothed[0])
    else:
        adapter.finalize(states, None, trans, None)
        want = reduce_ref(red, smoothed)
    got = integ.step_size
    if not (got > 0 and math.isfinite(got)) or abs(got - want) > 1e-9 * want:
        return violation("dual-finalize", f"{PROP} dual-finalize:{red}", f"{desc}: finalized step size {got} != reducer of smoothed iterates {want}")
    keys.append(digest(["dual", red, n_chain, sorted(lens), kw, fixed_target]))
    return None


def judge_probe(p, desc):
    log2 = math.log(2)

    def big(x):
        return x == "error" or (isinstance(x, float) and (math.isnan(x) or x > log2))

    r, two, half = p.get("dh_r"), p.get("dh_2r"), p.get("dh_half")
    ok_a = isinstance(r, float) and r <= log2 and big(two)
    ok_b = isinstance(r, float) and r > log2 and isinstance(half, float) and half <= log2
    if not (ok_a or ok_b):
        return violation("init-step-crossing", f"{PROP} init-step-crossing",
                         f"{desc}: initial step size {p.get('r')!r}: |dH(r)|={r!r}, |dH(2r)|={two!r}, |dH(r/2)|={half!r} does not bracket log 2")
    return None


# ---- (b) simulated run -----------------------------------------------------------------


def judge_run(rec, keys):
    v = []
    scn = rec.scn
    calls, ad_log = rec.log.calls, rec.log.adapter
    stage_of_call, seen = {}, {}
    for idx, c in enumerate(calls):
        stage_of_call[idx] = seen.get(c["chain"], 0)
        seen[c["chain"]] = stage_of_call[idx] + 1
    # group events per (adapter label, stage)
    inits, updates = {}, {}
    for a in ad_log:
        if a["ev"] == "initialize":
            inits.setdefault((a["adapter"], stage_of_call[a["call"]]), {})[a["chain"]] = a
        elif a["ev"] == "update":
            updates.setdefault((a["adapter"], stage_of_call[a["call"]]), {}).setdefault(a["chain"], []).append(a)
    finals = [a for a in ad_log if a["ev"] == "finalize"]
    # finalize events in order correspond to (stage, adapter) pairs in order of stages and adapters
    order = []
    for s in range(max(seen.values()) if seen else 0):
        i0 = next(i for i in stage_of_call if stage_of_call[i] == s)
        ads = calls[i0]["adapters"]
        if ads:
            for k in ads:
                for label in ads[k]:
                    order.append((label, s))
    if len(order) != len(finals):
        return [violation("finalize-count", f"{PROP} finalize-count", f"{len(finals)} finalize events for {len(order)} (adapter, stage) pairs")]
    spec = {}
    ad = scn.get("adapters")
    if isinstance(ad, list):
        for i, a in enumerate(ad):
            kind = a if isinstance(a, str) else a["type"]
            spec[f"{kind}#{i}"] = {} if isinstance(a, str) else {k: v_ for k, v_ in a.items() if k != "type"}
    spec["dual#default"] = {}
    for (label, s), fin in zip(order, finals):
        if fin["adapter"] != label:
            return [violation("finalize-order", f"{PROP} finalize-order", f"finalize of {fin['adapter']} where {label} (stage {s}) was expected")]
        kind = label.split("#")[0]
        ups = updates.get((label, s), {})
        chains = sorted(ups)
        if kind in ("var", "cov"):
            pos = [u["pos"] for c in chains for u in ups[c]]
            if len(pos) < 2:
                continue
            ro = spec[label].get("reg_iter_offset", 5)
            rs = spec[label].get("reg_scale", 1e-3)
            ref = ref_pooled(np.array(pos), ro, rs, kind == "cov", always_reg=(kind == "cov"))
            tol, cond = tol_for(np.array(pos))
            m_arr = fin["metric_array"]
            if m_arr is None:
                return [violation("metric-missing", f"{PROP} metric-missing", "no metric after finalize")]
            dim = m_arr.shape[0]
            if kind == "cov":
                resid = np.abs(m_arr @ ref - np.eye(dim)).max()
                lim = tol * max(1.0, np.linalg.cond(ref)) * dim
                if resid > lim:
                    return [violation("metric-estimator", f"{PROP} run-metric-estimator:cov",
                                      f"stage {s}: metric @ regularised pooled covariance of the {len(pos)} positions logged across chains {chains} deviates from I by {resid:.2e} > {lim:.2e}")]
            else:
                got = 1.0 / np.diag(m_arr)
                rel = np.max(np.abs(got - ref) / ref)
                if rel > tol or np.abs(m_arr - np.diag(np.diag(m_arr))).max() != 0:
                    return [violation("metric-estimator", f"{PROP} run-metric-estimator:var",
                                      f"stage {s}: 1/diag(metric) vs regularised pooled variance of {len(pos)} positions across chains {chains}: rel.err {rel:.2e} > {tol:.2e}")]
            # momenta redrawn under the new metric from each chain's own generator
            if not all(fin.get("mom_changed", [])) or not all(fin.get("rng_advanced", [])):
                return [violation("momentum-refresh", f"{PROP} run-momentum-refresh", f"stage {s}: momenta changed {fin.get('mom_changed')}, generators advanced {fin.get('rng_advanced')}")]
            for j, (sa, me) in enumerate(zip(fin["states_after"], fin.get("mom_expected") or [])):
                if me is None or sa.get("mom") is None:
                    continue
                if not np.allclose(sa["mom"], me, rtol=1e-9, atol=1e-12):
                    return [violation("momentum-refresh", f"{PROP} run-momentum-refresh-value",
                                      f"stage {s}: refreshed momentum of state {j} is {sa['mom'].tolist()} but a draw under the new metric from the same generator state is {me.tolist()}")]
            keys.append(digest([kind, [len(ups[c]) for c in chains], ro, rs, "run"]))
        elif kind == "dual":
            red = spec.get(label, {}).get("reducer", "arith")
            smoothed = []
            for c in chains:
                init = inits.get((label, s), {}).get(c)
                if init is None:
                    return [violation("missing-initialize", f"{PROP} missing-initialize", f"stage {s} chain {c}: update without initialize")]
                pv = judge_probe(init["init_probe"], {"stage": s, "chain": c}) if init.get("init_probe") else None
                if pv:
                    return [pv]
                acc = [u["accept_stat"] for u in ups[c]]
                reg_t = init.get("reg_target")
                if reg_t is None:
                    continue
                want_t = math.log(10 * init["init_probe"]["r"])
                if abs(reg_t - want_t) > 1e-12 * max(1.0, abs(want_t)):
                    return [violation("reg-target", f"{PROP} run-reg-target", f"regularisation target {reg_t} != log(10 r) = {want_t}")]
                logs, log_bar = ref_dual(acc, reg_t)
                for u, lg in zip(ups[c], logs):
                    eps = u["after"]["step_size"]
                    if not (eps is not None and eps > 0 and math.isfinite(eps)) or abs(math.log(eps) - lg) > 1e-9 * max(1.0, abs(lg)):
                        return [violation("dual-recursion", f"{PROP} run-dual-recursion", f"stage {s} chain {c}: step size {eps} != exp({lg}) from the recursion on the logged acceptance statistics")]
                smoothed.append(log_bar)
            if smoothed:
                want = reduce_ref(red, smoothed)
                got = fin["after"]["step_size"]
                if not (got > 0 and math.isfinite(got)) or abs(got - want) > 1e-9 * want:
                    return [violation("dual-finalize", f"{PROP} run-dual-finalize:{red}", f"stage {s}: finalized step size {got} != {red} reducer of per-chain smoothed iterates {want} ({len(smoothed)} chains)")]
                keys.append(digest(["dual", red, [len(ups[c]) for c in chains], "run"]))
    return v


def run_scenario(scn):
    warnings.simplefilter("ignore")
    np.seterr(all="ignore")
    stats = {"direct_histories": 0, "runs": 0, "discarded": {}, "outcomes": {}, "parallel_runs": 0, "adapter_events": 0}
    keys, viols = [], []
    rng = rng_for(scn["direct_seed"], "direct")
    for j in range(N_DIRECT):
        f = direct_metric_history if j % 2 == 0 else direct_dual_history
        v = f(rng, keys)
        stats["direct_histories"] += 1
        if v:
            viols.append(v)
            break
    sample = {"sampler": scn["sampler"], "adapters": scn.get("adapters"), "n_chain": scn["n_chain"], "n_warm_up": scn["n_warm_up"],
              "n_process": scn["n_process"], "stager": scn.get("stager")}
    if not viols and scn["sampler"] != "generic":
        rec = chainsim.run_scenario_raw(scn)
        stats["runs"] = 1
        stats["outcomes"][rec.outcome] = 1
        stats["adapter_events"] = len(rec.log.adapter)
        if rec.sim is not None:
            stats["parallel_runs"] = 1
        disc = orc.documented_discard(rec)
        if disc:
            stats["discarded"][disc] = 1
        elif rec.outcome != "returned":
            viols.append(violation("no-normal-return", f"{PROP} {rec.outcome}@{rec.error_site or '?'}", f"{rec.outcome}\n{(rec.error or '')[-800:]}"))
        else:
            viols.extend(judge_run(rec, keys))
    return {"violations": viols, "stats": stats, "keys": keys, "sample": sample, "evaluations": stats["direct_histories"] + stats["runs"]}
