"""Launcher for all checks:  python -m checks.run C13 [--replay FILE]

Exit protocol: 0 = property held on everything explored (KNOWN-FINDING lines allowed),
1 = violation (prints ``VIOLATION property=<id> replay=<path>``), 2 = harness error.
"""

from __future__ import annotations

import fnmatch
import importlib
import json
import os
import sys
import time
from pathlib import Path

sys.path.insert(0, str(Path(__file__).resolve().parent.parent))

from simkit import core  # noqa: E402


def merge_stats(acc: dict, new: dict) -> dict:
    for k, v in (new or {}).items():
        if isinstance(v, dict):
            acc[k] = merge_stats(acc.get(k, {}), v)
        elif isinstance(v, bool):
            acc[k] = acc.get(k, 0) + int(v)
        elif isinstance(v, (int, float)) and k.startswith("max_"):
            acc[k] = max(acc.get(k, 0), v)
        elif isinstance(v, (int, float)):
            acc[k] = acc.get(k, 0) + v
        elif isinstance(v, list):
            acc.setdefault(k, [])
            if len(acc[k]) < 50:
                acc[k].extend(v[: 50 - len(acc[k])])
        else:
            acc.setdefault(k, v)
    return acc


def _match_known(sig: str, findings):
    sig = sig.replace(" ", "_")
    for ksig, text in findings:
        if sig == ksig or fnmatch.fnmatchcase(sig, ksig):
            return text
    return None


def _run_one(args):
    modname, scn = args
    mod = importlib.import_module(modname)
    return mod.run_scenario(scn)


def _same_violation(mod, scn, viol):
    """Does running scn still produce a violation of the same class+signature?"""
    try:
        res = mod.run_scenario(scn)
    except Exception:  # noqa: BLE001
        return None
    for v in res.get("violations", []):
        if v["cls"] == viol["cls"] and v["sig"] == viol["sig"]:
            return v
    return None


def replay(mod, path: str) -> int:
    data = json.loads(Path(path).read_text())
    scn = data["scenario"]
    want = data["violation"]
    res = mod.run_scenario(scn)
    found = [
        v
        for v in res.get("violations", [])
        if v["cls"] == want["cls"] and v["sig"] == want["sig"]
    ]
    if found:
        print(f"replay reproduced: {found[0]['sig']}: {found[0]['msg'][:400]}")
        print(f"VIOLATION property={mod.PROP} replay={path}")
        return 1
    others = res.get("violations", [])
    if others:
        print("replay produced different violations:", [v["sig"] for v in others][:5])
        print(f"VIOLATION property={mod.PROP} replay={path}")
        return 1
    print("replay did not reproduce the violation (property held on this scenario)")
    return 0


def main(argv=None) -> int:
    argv = list(sys.argv[1:] if argv is None else argv)
    if not argv:
        print("usage: python -m checks.run <ID> [--replay FILE] [--tier quick|thorough]")
        return 2
    prop = argv.pop(0).upper()
    replay_path = None
    while argv:
        a = argv.pop(0)
        if a == "--replay":
            replay_path = argv.pop(0)
        elif a == "--tier":
            os.environ["VERIF_TIER"] = argv.pop(0)
        elif a == "--seed":
            os.environ["VERIF_SEED"] = argv.pop(0)
    core.setup_mici_path()
    modname = f"checks.{prop.lower()}"
    mod = importlib.import_module(modname)
    if replay_path:
        return replay(mod, replay_path)

    tier = core.tier()
    seed = core.base_seed()
    t0 = time.monotonic()
    print(f"[{prop}] tier={tier} VERIF_SEED={seed} mici={core.mici_source_digest()}")
    scns = mod.scenarios(tier, seed)
    wall_cap = getattr(mod, "WALL_CAP_S", {}).get(tier)
    task_timeout = getattr(mod, "TASK_TIMEOUT_S", {}).get(tier, 600)
    results = core.run_batch(
        _run_one,
        [(modname, s) for s in scns],
        task_timeout_s=task_timeout,
        wall_cap_s=wall_cap,
    )
    stats: dict = {}
    keys = set()
    samples = []
    digests = []
    violations = []  # (scn, viol)
    harness_errors = []
    not_run = 0
    evaluations = 0
    for scn, (status, res) in zip(scns, results):
        if status == "not_run":
            not_run += 1
            continue
        if status != "ok":
            harness_errors.append((scn, res))
            continue
        evaluations += int(res.get("evaluations", 1))
        merge_stats(stats, res.get("stats", {}))
        for k in res.get("keys", []):
            keys.add(k if isinstance(k, str) else json.dumps(k, sort_keys=True, default=str))
        if res.get("sample") is not None and len(samples) < 6:
            samples.append(res["sample"])
        if res.get("digest"):
            digests.append(res["digest"])
        for v in res.get("violations", []):
            violations.append((scn, v))
    wall = time.monotonic() - t0

    findings, _fixed = core.load_known_findings(prop)
    known_hits: dict[str, int] = {}
    unknown = []
    for scn, v in violations:
        text = _match_known(v["sig"], findings)
        if text is not None:
            known_hits[text] = known_hits.get(text, 0) + 1
        else:
            unknown.append((scn, v))

    # minimise + write replay for up to 3 distinct unknown signatures
    reported = []
    seen_sigs = set()
    for scn, v in unknown:
        if v["sig"] in seen_sigs:
            continue
        seen_sigs.add(v["sig"])
        if len(reported) >= 3:
            continue
        mscn = scn
        if hasattr(mod, "minimise"):
            try:
                mscn = mod.minimise(scn, v, lambda s, v=v: _same_violation(mod, s, v))
            except Exception as e:  # noqa: BLE001
                print(f"[{prop}] minimiser failed ({type(e).__name__}: {e}); reporting unminimised")
                mscn = scn
        mv = _same_violation(mod, mscn, v) or v
        path = core.write_replay(prop, mscn, mv, len(reported))
        reported.append((path, mv))

    extra = {
        "stats": stats,
        "runs_per_hour": round(evaluations / max(wall, 1e-9) * 3600),
        "seeds_per_hour": round(len(scns) / max(wall, 1e-9) * 3600),
        "scenarios": len(scns),
        "scenarios_not_run_wall_cap": not_run,
        "harness_errors": len(harness_errors),
        "distinct_run_digests": len(set(digests)),
        "simulated_time": "not applicable: no clock in any claimed property; logical steps reported in stats",
        "known_findings_hit": known_hits,
        "unknown_violation_signatures": sorted(seen_sigs)[:20],
        "mici_source_digest": core.mici_source_digest(),
        "real_vs_stub": getattr(mod, "REAL_VS_STUB", ""),
    }
    if hasattr(mod, "summarise"):
        try:
            extra.update(mod.summarise(stats) or {})
        except Exception as e:  # noqa: BLE001
            extra["summarise_error"] = repr(e)
    core.write_evidence(
        prop,
        level=mod.LEVEL,
        evaluations=evaluations,
        distinct_nontrivial=len(keys),
        rule=mod.RULE,
        samples=samples,
        wall_s=wall,
        violations=len(unknown),
        assumptions=mod.ASSUMPTIONS,
        extra=extra,
    )
    print(
        f"[{prop}] scenarios={len(scns)} evaluations={evaluations} distinct_nontrivial={len(keys)} "
        f"wall={wall:.1f}s not_run={not_run} harness_errors={len(harness_errors)}"
    )
    brief = {k: v for k, v in stats.items() if not isinstance(v, (dict, list))}
    print(f"[{prop}] stats: {json.dumps(brief, sort_keys=True, default=str)[:1500]}")
    for _ksig, text in findings:
        print(f"KNOWN-FINDING: {text} (hit {known_hits.get(text, 0)}x in this run)")
    for path, v in reported:
        print(f"[{prop}] violation {v['sig']}: {v['msg'][:600]}")
        print(f"VIOLATION property={prop} replay={path}")
    if unknown:
        return 1
    if harness_errors:
        scn, msg = harness_errors[0]
        print(f"[{prop}] HARNESS ERROR in scenario {json.dumps(scn, default=str)[:300]}:\n{msg[:3000]}")
        return 2
    min_eval = getattr(mod, "MIN_EVALUATIONS", {}).get(tier, 1)
    if evaluations < min_eval:
        print(f"[{prop}] HARNESS ERROR: only {evaluations} evaluations completed (< {min_eval})")
        return 2
    return 0


if __name__ == "__main__":
    sys.exit(main())
