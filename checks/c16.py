"""C16 — adaptation confined to warm-up; stages partition the iterations (engine E2)."""

from __future__ import annotations

import copy
import warnings

import numpy as np

from engines import chainoracle as orc
from engines import chainsim
from simkit.core import digest, rng_for, violation

PROP = "C16"
LEVEL = "exploration"
RULE = (
    "seeded sample_chains runs (warm-up/main counts incl. 0 and counts below the window sizes, stager settings, "
    "fast/slow adapter mixes, 1-5 chains, sequential and simulated-parallel schedules) observed through recording "
    "adapters/transitions, plus per scenario a batch of direct stager.stages() calls. Oracles: stage list partitions "
    "the iterations; _sample_chain calls follow the stage list; parameters frozen in the main stage and equal to those "
    "left by the last stage with >=1 update; zero-iteration stages change nothing; no adapter call in the main stage. "
    "distinct_nontrivial = distinct (stage-length tuple, adapter mix, n_chain, n_process) with >=1 adaptive stage."
)
ASSUMPTIONS = [
    "parameters observed: integrator.step_size, dense fingerprint of system.metric, RW scale (generic sampler)",
    "runs ending in mici's documented AdaptationError are discarded (counted)",
    "stager settings with window multiplier < 1 or zero initial slow window are not generated (no growing windows exist)",
]
REAL_VS_STUB = "real: all of mici (stagers, adapters, samplers); stub: pool, queues, scheduler"
WALL_CAP_S = {"quick": 300, "thorough": 3000}
MIN_EVALUATIONS = {"quick": 200, "thorough": 2000}
N = {"quick": 560, "thorough": 30000}
N_STAGELISTS = 60


def scenarios(tier, seed):
    out = []
    for i in range(N[tier]):
        rng = rng_for(seed, PROP, i)
        scn = chainsim.random_scenario(rng)
        # emphasise adapters and stagers
        if scn["sampler"] != "generic":
            metric_ok = scn["system"]["kind"] in ("euclid", "gauss", "con", "gcon")
            ch = [["dual"], ["dual"], "default", [{"type": "dual", "reducer": rng.choice(["arith", "geom", "min"])}]]
            if metric_ok:
                ch += [["dual", "var"], ["dual", "cov"], ["var", "dual"], ["var"], ["cov"]] * 2
            scn["adapters"] = rng.choice(ch)
        else:
            scn["adapters"] = rng.choice([["rwscale"], ["rwscale", "jitamount"], ["jitamount"], None])
            if scn["adapters"] and "jitamount" in scn["adapters"]:
                scn["second_transition"] = True
        scn["n_warm_up"] = rng.choice([0, 1, 2, 3, 4, 5, 6, 7, 8, 9, 10, 12, 15, 20, 26, 33, 40])
        scn["n_main"] = rng.choice([0, 1, 2, 3, 4])
        scn["storage"] = "mem" if scn["n_process"] == 1 else scn["storage"]
        scn["stagelist_seed"] = rng.getrandbits(32)
        out.append(scn)
    return out


# ---- stage-list oracle ---------------------------------------------------------------


class _Fast:
    is_fast = True


class _Slow:
    is_fast = False


def check_stage_list(stages, n_warm, n_main, adapters, windowed):
    """stages: list of ChainStage; adapters: dict key -> list (or None)."""
    msgs = []
    st = list(stages)
    if n_main > 0:
        if not st or st[-1].adapters is not None or st[-1].n_iter != n_main:
            return [f"last stage is not the non-adaptive main stage of length {n_main}: {[(s.n_iter, s.adapters is not None) for s in st]}"]
        warm = st[:-1]
    else:
        warm = st
    if any(s.n_iter < 0 for s in st):
        msgs.append(f"negative stage length {[s.n_iter for s in st]}")
    if sum(s.n_iter for s in warm) != n_warm:
        msgs.append(f"warm-up stage lengths {[s.n_iter for s in warm]} sum to {sum(s.n_iter for s in warm)} != n_warm_up {n_warm}")
    if adapters is not None:
        fast = {k: [a for a in v if a.is_fast] for k, v in adapters.items()}
        slow = {k: [a for a in v if not a.is_fast] for k, v in adapters.items()}
        for s in warm:
            if s.adapters is None:
                msgs.append("warm-up stage without adapters although adapters were given")
                continue
            for k in adapters:
                have = list(s.adapters.get(k, []))
                if any(a not in have for a in fast[k]):
                    msgs.append("a fast adapter is missing from a warm-up stage")
        if windowed:
            slow_stages = [s for s in warm if any(any(a in s.adapters.get(k, []) for a in slow[k]) for k in adapters)]
            if any(slow.values()):
                lens = [s.n_iter for s in slow_stages]
                if len(lens) > 2 and any(lens[i] > lens[i + 1] for i in range(len(lens) - 2)):
                    msgs.append(f"slow windows are not growing: {lens}")
                # slow adapters only in a contiguous block (the slow windows)
                idx = [i for i, s in enumerate(warm) if s in slow_stages]
                if idx and idx != list(range(idx[0], idx[-1] + 1)):
                    msgs.append("slow-adapter stages are not contiguous")
    return msgs


def stage_list_batch(seed):
    """Direct drive of the real stagers; returns (n_checked, first violation message or None)."""
    import mici

    rng = rng_for(seed, "stagelists")
    n = 0
    for _ in range(N_STAGELISTS):
        n_warm = rng.choice([0, 1, 2, 3, 5, 7, 10, 13, 20, 40, 99, 150, 151, 400, 1000])
        n_main = rng.choice([0, 1, 5])
        mix = rng.choice(["fast", "slow", "both", "none", "empty"])
        ad = {"t": {"fast": [_Fast()], "slow": [_Slow()], "both": [_Fast(), _Slow()], "none": [], "empty": []}[mix]}
        if mix == "none":
            ad = None
        if rng.random() < 0.3:
            stager, windowed, desc = mici.stagers.WarmUpStager(), False, "WarmUpStager"
        else:
            kw = {
                "n_init_slow_window_iter": rng.choice([1, 2, 3, 5, 10, 25]),
                "n_init_fast_stage_iter": rng.choice([0, 1, 2, 10, 75]),
                "n_final_fast_stage_iter": rng.choice([0, 1, 5, 50]),
                "slow_window_multiplier": rng.choice([1.0, 1.5, 2.0, 2.5, 3.0]),
            }
            stager, windowed, desc = mici.stagers.WindowedWarmUpStager(**kw), True, f"WindowedWarmUpStager({kw})"
        tw = rng.random() < 0.5
        stages = stager.stages(n_warm, n_main, ad, [chainsim.trace_pos], trace_warm_up=tw)
        n += 1
        msgs = check_stage_list(stages.values(), n_warm, n_main, ad, windowed)
        for s in list(stages.values())[: -1 if n_main > 0 else None]:
            if s.record_stats != tw or (s.trace_funcs is not None) != tw:
                msgs.append("warm-up stage recording flags disagree with trace_warm_up")
        if msgs:
            return n, f"{desc}.stages({n_warm}, {n_main}, adapters={mix}): {msgs[0]}"
    return n, None


# ---- run-level oracle ----------------------------------------------------------------


def params_of(e):
    return {"step_size": e.get("step_size"), "metric": e.get("metric"), "scale": e.get("scale")}


def judge(rec):
    v = []
    scn = rec.scn
    calls = rec.log.calls
    entries = rec.log.entries
    ad_log = rec.log.adapter
    n_chain = scn["n_chain"]
    # stage index of each call = ordinal of the call for its chain
    stage_of_call, seen = {}, {}
    for idx, c in enumerate(calls):
        stage_of_call[idx] = seen.get(c["chain"], 0)
        seen[c["chain"]] = stage_of_call[idx] + 1
    n_stage = max(seen.values()) if seen else 0
    if any(seen.get(c, 0) != n_stage for c in range(n_chain)):
        return [violation("stage-calls", f"{PROP} stage-calls", f"chains ran different numbers of stages: {seen}")], None
    lens = []
    for s in range(n_stage):
        ls = {calls[i]["n_iter"] for i in stage_of_call if stage_of_call[i] == s}
        if len(ls) != 1:
            return [violation("stage-calls", f"{PROP} stage-calls", f"stage {s} has different lengths for different chains: {ls}")], None
        lens.append(ls.pop())
    adaptive = []
    for s in range(n_stage):
        a = {digest(calls[i]["adapters"]) for i in stage_of_call if stage_of_call[i] == s}
        adaptive.append(any(calls[i]["adapters"] for i in stage_of_call if stage_of_call[i] == s))
    n_warm, n_main = scn["n_warm_up"], scn["n_main"]
    has_main = n_main > 0
    # partition as run
    if has_main:
        if not lens or lens[-1] != n_main or adaptive[-1]:
            v.append(violation("partition", f"{PROP} partition", f"stages as run {lens} (adaptive {adaptive}): last stage is not the non-adaptive main stage of {n_main}"))
            return v, lens
        warm_lens = lens[:-1]
    else:
        warm_lens = lens
    if sum(warm_lens) != n_warm:
        v.append(violation("partition", f"{PROP} partition", f"warm-up stages as run {warm_lens} sum to {sum(warm_lens)} != {n_warm}"))
        return v, lens
    # each chain really performed those iterations
    T = len(orc.transition_keys(rec))
    per_call_entries = {}
    for e in entries:
        per_call_entries[e["call"]] = per_call_entries.get(e["call"], 0) + 1
    for idx, c in enumerate(calls):
        if per_call_entries.get(idx, 0) != c["n_iter"] * T:
            v.append(violation("partition", f"{PROP} partition-iterations", f"_sample_chain call {idx} (chain {c['chain']}, stage {stage_of_call[idx]}) made {per_call_entries.get(idx, 0)} transition calls for {c['n_iter']} iterations x {T} transitions"))
            return v, lens
    # every adapter assigned to a stage is updated once per iteration of every chain in that stage
    n_upd = {}
    for a in ad_log:
        if a["ev"] == "update":
            n_upd[(a["call"], a["adapter"])] = n_upd.get((a["call"], a["adapter"]), 0) + 1
    # the adapters of a stage are the same for every chain: what any chain's call of that stage was handed
    stage_adapters = {}
    for idx, c in enumerate(calls):
        for tk, labels in (c["adapters"] or {}).items():
            for label in labels:
                stage_adapters.setdefault(stage_of_call[idx], {}).setdefault(tk, set()).add(label)
    for idx, c in enumerate(calls):
        expected = stage_adapters.get(stage_of_call[idx])
        if expected and c["outcome"] == "ok":
            for tk, labels in sorted(expected.items()):
                for label in sorted(labels):
                    if n_upd.get((idx, label), 0) != c["n_iter"]:
                        v.append(violation("adapter-not-active", f"{PROP} adapter-not-active",
                                           f"adapter {label} (transition {tk}) was updated {n_upd.get((idx, label), 0)} times in stage {stage_of_call[idx]} of chain {c['chain']} which has {c['n_iter']} iterations"))
                        return v, lens
    # adapter events per stage
    ev_stage = []
    for a in ad_log:
        if a["ev"] in ("initialize", "update", "initialize-raised"):
            ev_stage.append(stage_of_call.get(a["call"]))
        else:
            ev_stage.append(None)  # finalize: run by the parent between stages
    updates_in_stage = [0] * n_stage
    for a, s in zip(ad_log, ev_stage):
        if a["ev"] == "update" and s is not None:
            updates_in_stage[s] += 1
    # finalize events belong to the stage whose entries precede them: use seq (entries logged so far)
    first_entry_of_stage = {}
    for idx, e in enumerate(entries):
        s = stage_of_call[e["call"]]
        first_entry_of_stage.setdefault(s, idx)
    main_stage = n_stage - 1 if has_main else None
    if has_main:
        main_calls = {i for i in stage_of_call if stage_of_call[i] == main_stage}
        for a, s in zip(ad_log, ev_stage):
            if a["ev"] != "finalize" and a["ev"] != "finalize-raised" and a["call"] in main_calls:
                v.append(violation("adapter-in-main", f"{PROP} adapter-in-main", f"adapter {a['adapter']} {a['ev']} called during the main stage (chain {a['chain']})"))
                return v, lens
        main_first = first_entry_of_stage.get(main_stage)
        if main_first is not None:
            for a in ad_log:
                if a["ev"].startswith("finalize") and a["seq"] > main_first:
                    v.append(violation("adapter-in-main", f"{PROP} finalize-after-main-began", f"adapter {a['adapter']} finalize ran after the main stage began"))
                    return v, lens
    # parameter timeline: params after the finalize events of each stage
    # finalize events in log order; assign to stages in order of adaptive stages that have adapters
    fin_groups = []  # list of (stage, [events])
    fin_events = [a for a in ad_log if a["ev"] == "finalize"]
    stages_with_adapters = [s for s in range(n_stage) if adaptive[s]]
    # each adaptive stage with >=1 adapter produces one finalize per adapter, in stage order
    per_stage_n = []
    for s in stages_with_adapters:
        i0 = next(i for i in stage_of_call if stage_of_call[i] == s)
        per_stage_n.append(sum(len(x) for x in calls[i0]["adapters"].values()))
    pos = 0
    for s, n in zip(stages_with_adapters, per_stage_n):
        fin_groups.append((s, fin_events[pos : pos + n]))
        pos += n
    if pos != len(fin_events):
        v.append(violation("finalize-count", f"{PROP} finalize-count", f"{len(fin_events)} finalize calls for adaptive stages {stages_with_adapters} with {per_stage_n} adapters"))
        return v, lens
    if any(len(g) != n for (s, g), n in zip(fin_groups, per_stage_n)):
        v.append(violation("finalize-count", f"{PROP} finalize-count", "an adaptive stage was not finalized"))
        return v, lens
    # per transition key: finalize events grouped by stage
    tkeys = sorted({a.get("trans_key") for a in fin_events if a.get("trans_key") is not None})
    upd_stage_tk = {}
    for a, s_ in zip(ad_log, ev_stage):
        if a["ev"] == "update" and s_ is not None:
            upd_stage_tk[(a.get("trans_key"), s_)] = upd_stage_tk.get((a.get("trans_key"), s_), 0) + 1
    for tk in tkeys:
        groups_tk = [(s_, [a for a in g if a.get("trans_key") == tk]) for s_, g in fin_groups]
        groups_tk = [(s_, g) for s_, g in groups_tk if g]
        init = rec.initial_params_by_key.get(tk, rec.initial_params)
        # zero-iteration stages change nothing
        prev = init
        for s_, g in groups_tk:
            after = g[-1]["after"]
            if lens[s_] == 0 and after != prev:
                v.append(violation("empty-stage-changes-params", f"{PROP} empty-stage-changes-params",
                                   f"stage {s_} has zero iterations but parameters of transition {tk} changed from {prev} to {after} (stage lengths {lens})"))
                return v, lens
            prev = after
        # main stage parameters
        if has_main and main_first is not None:
            with_upd = [(s_, g) for s_, g in groups_tk if upd_stage_tk.get((tk, s_), 0) > 0]
            if with_upd:
                s_star, g = with_upd[-1]
                want = g[-1]["after"]
                src = f"finalize of stage {s_star} (the last stage with >=1 update of an adapter of transition {tk})"
            else:
                want, src = init, "the initial parameters (no stage performed an update)"
            for e in entries:
                if stage_of_call[e["call"]] != main_stage or e["trans"] != tk:
                    continue
                got = params_of(e)
                for p in ("step_size", "metric", "scale"):
                    if got[p] is None or got[p] == "n/a":
                        continue
                    if got[p] != want.get(p):
                        v.append(violation("main-stage-params", f"{PROP} main-stage-params:{p}",
                                           f"main stage used {p}={got[p]!r} in transition {tk} (chain {e['chain']}) but {src} left {want.get(p)!r}; stage lengths {lens}"))
                        return v, lens
                if e["stats"] is not None and "step_size" in e["stats"] and want.get("step_size") is not None:
                    if e["stats"]["step_size"] != want["step_size"]:
                        v.append(violation("main-stage-params", f"{PROP} main-stage-params:step_size-statistic",
                                           f"step_size statistic {e['stats']['step_size']!r} in main stage differs from {want['step_size']!r}"))
                        return v, lens
    # transitions without any adapter: parameters in the main stage equal the initial ones
    if has_main and main_first is not None:
        for e in entries:
            if stage_of_call[e["call"]] != main_stage or e["trans"] in tkeys:
                continue
            init = rec.initial_params_by_key.get(e["trans"])
            if init is None:
                continue
            got = params_of(e)
            for p in ("scale",):  # step size and metric live in objects shared with the adapted transition
                if got[p] is None or got[p] == "n/a" or init.get(p) is None:
                    continue
                if got[p] != init[p] and not any(a.get("trans_key") is None for a in fin_events):
                    v.append(violation("main-stage-params", f"{PROP} main-stage-params:{p}:unadapted",
                                       f"transition {e['trans']} has no adapter but its {p} in the main stage is {got[p]!r}, initially {init[p]!r}"))
                    return v, lens
    return v, lens


def run_scenario(scn):
    warnings.simplefilter("ignore")
    np.seterr(all="ignore")
    stats = {"runs": 0, "stage_lists": 0, "discarded": {}, "outcomes": {}, "parallel_runs": 0, "sched_steps": 0,
             "zero_length_stages": 0, "adapter_events": 0, "probe_main_after_empty_stage": 0}
    keys, viols = [], []
    n, msg = stage_list_batch(scn["stagelist_seed"])
    stats["stage_lists"] = n
    if msg:
        viols.append(violation("stage-list", f"{PROP} stage-list", msg))
    rec = chainsim.run_scenario_raw(scn)
    stats["runs"] = 1
    stats["outcomes"][rec.outcome] = 1
    if rec.sim is not None:
        stats["parallel_runs"] = 1
        stats["sched_steps"] = rec.sim.steps
    stats["adapter_events"] = len(rec.log.adapter)
    disc = orc.documented_discard(rec)
    sample = {"sampler": scn["sampler"], "n_chain": scn["n_chain"], "n_warm_up": scn["n_warm_up"], "n_main": scn["n_main"],
              "adapters": scn.get("adapters"), "stager": scn.get("stager"), "n_process": scn["n_process"], "outcome": rec.outcome}
    if disc:
        stats["discarded"][disc] = 1
    elif rec.outcome != "returned":
        viols.append(violation("no-normal-return", f"{PROP} {rec.outcome}@{rec.error_site or '?'}", f"{rec.outcome}\n{(rec.error or '')[-800:]}"))
    else:
        vs, lens = judge(rec)
        viols.extend(vs)
        sample["stage_lengths"] = lens
        if lens is not None:
            stats["zero_length_stages"] = sum(1 for x in lens if x == 0)
            if any(x == 0 for x in lens) and scn["n_main"] > 0:
                stats["probe_main_after_empty_stage"] = 1
            if len(lens) >= 2 or (len(lens) == 1 and scn["n_warm_up"] > 0):
                ad = scn.get("adapters")
                keys.append(digest([lens, ad if not isinstance(ad, list) else [a if isinstance(a, str) else a["type"] for a in ad], scn["n_chain"], scn["n_process"]]))
    return {"violations": viols, "stats": stats, "keys": keys, "sample": sample, "evaluations": 1 + n}


def minimise(scn, viol, still_fails):
    cur = copy.deepcopy(scn)

    def try_set(key, val):
        nonlocal cur
        if cur.get(key) == val:
            return
        cand = copy.deepcopy(cur)
        cand[key] = val
        if still_fails(cand):
            cur = cand

    for key, vals in (("n_process", [1]), ("n_chain", [1, 2]), ("n_main", [1, 2]), ("n_warm_up", [1, 2, 3, 4, 5, 6, 8, 10]),
                      ("trace", ["pos"]), ("storage", ["mem"]), ("bitgen", ["PCG64"]), ("trace_warm_up", [False])):
        for val in vals:
            try_set(key, val)
    return cur
