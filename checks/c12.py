"""C12 — numerical failures inside a trajectory are contained as rejections (engine E3, fault enumeration)."""

from __future__ import annotations

import copy
import warnings

import numpy as np

from engines import faultsim as fs
from models import zoo
from simkit.core import digest, rng_for, violation

PROP = "C12"
LEVEL = "fault_enumeration"
RULE = (
    "seeded scenarios (system x compatible integrator x solver x integration transition, short multi-iteration chain); a "
    "fault-free pilot run catalogues every model-function call made inside transitions; then one faulted run per "
    "(call index, applicable fault kind): value faults NaN/+inf/-inf/NaN-entry/inf-entry anywhere in a trajectory, "
    "ValueError / numpy LinAlgError / mici LinAlgError for calls made inside an iterative solve, forced non-convergence of "
    "the j-th solve; plus seeded multi-fault sequences and deterministic region faults. After exception and forced-"
    "non-convergence faults stop, 8 clean iterations are run twice - from the chain's own state object and from a fresh state "
    "holding the same variables with the same generator state - and must agree exactly (no poisoned state survives). Oracle: sample() returns, state finite and unchanged-or-candidate, flags match the errors seen, "
    "solvers never return unconverged / leak foreign exceptions. distinct_nontrivial = distinct (scenario, function, "
    "fault kind, in-solve flag, outcome class) tuples among runs whose fault fired."
)
ASSUMPTIONS = [
    "exceptions are injected only while an iterative solver is on the stack (the property's containment promise); value faults anywhere inside transition.sample",
    "after a transient value fault only return/finiteness/candidate/flag oracles are asserted (a cached transient NaN may legitimately pin the chain); the clean-continuation comparison is asserted after exception and forced-non-convergence faults",
    "no bound on the number of flagged (rejected) transitions after faults stop is asserted: the property promises that the chain continues, not that it moves",
    "harness oracle evaluations run with the injector paused on fresh states",
]
REAL_VS_STUB = "real: mici transitions, integrators, solvers, systems, matrices; stub: user model functions misbehave on command (Hooked wrappers)"
WALL_CAP_S = {"quick": 400, "thorough": 3300}
MIN_EVALUATIONS = {"quick": 500, "thorough": 5000}
N = {"quick": 40, "thorough": 800}
TASK_TIMEOUT_S = {"quick": 300, "thorough": 1500}
MAX_FAULTS_PER_SCENARIO = {"quick": 140, "thorough": 300}


def scenarios(tier, seed):
    out = []
    kinds_cycle = list(zoo.SYSTEM_KINDS)
    for i in range(N[tier]):
        rng = rng_for(seed, PROP, i)
        kind = kinds_cycle[i % len(kinds_cycle)] if rng.random() < 0.8 else rng.choice(kinds_cycle)
        stress = i % 8 == 7  # constrained stress family: curved manifolds, several inner steps, large steps - here the
        if stress:           # "fails its reversibility check" failures happen without any injected fault
            kind = rng.choice(["con", "gcon"])
        spec = zoo.random_system_spec(rng, kinds=(kind,), dims=(2, 3))
        ispec = zoo.random_integrator_spec(rng, spec["kind"], step_size=rng.choice([0.1, 0.3, 0.6]), allow_implicit_for_tractable=rng.random() < 0.3)
        if stress:
            ispec["n_inner_step"] = rng.choice([2, 3, 4])
            ispec["step_size"] = rng.choice([0.7, 1.0, 1.5])
        if ispec["type"] in ("implicit_leapfrog", "implicit_midpoint") and rng.random() < 0.4:
            ispec["solver_kwargs"] = {"max_iters": rng.choice([2, 5, 20])}
        if ispec["type"] == "constrained" and rng.random() < 0.4:
            ispec["solver_kwargs"] = {"max_iters": rng.choice([2, 4, 10])}
            if ispec["solver"] == "newton_ls":
                ispec["solver_kwargs"]["max_line_search_iters"] = rng.choice([0, 1, 3])
        t = rng.choice(["static", "random", "multinomial", "slice"])
        ts = {"type": t}
        if t == "static":
            ts["n_step"] = rng.choice([1, 2, 3])
        elif t == "random":
            ts["n_step_range"] = [1, rng.choice([3, 4])]
        else:
            ts.update(max_tree_depth=rng.choice([1, 2, 3]), criterion=rng.choice(["euclidean", "riemannian"]),
                      do_extra_subtree_checks=rng.random() < 0.5, max_delta_h=rng.choice([1000.0, 1000.0, 5.0]))
        out.append({
            "system": spec, "integrator": ispec, "transition": ts, "n_iter": rng.choice([3, 4, 5]),
            "chain_seed": rng.getrandbits(40), "start_variant": rng.randrange(3),
            "mom_resample_coeff": rng.choice([1.0, 1.0, 0.5]),
            "step_sizes": rng.choice([None, None, [0.1, 0.4, 1.5], [0.3, 3.0, 0.05]]),
            "plan_seed": rng.getrandbits(40), "max_faults": MAX_FAULTS_PER_SCENARIO[tier],
        })
    return out


def applicable_kinds(fn, in_solve):
    kinds = list(fs.VALUE_KINDS)
    if fn in ("neg_log_dens", "metric_func") and False:
        pass
    if in_solve:
        kinds += list(fs.EXC_KINDS)
    return kinds


def classify(ctx, outcome):
    if outcome["escaped"]:
        return "escaped"
    if ctx.violations:
        return "violation"
    if outcome["flags"]:
        return "rejected-with-flag"
    return "absorbed"


def judge_run(ctx, outcome, scn, fault_desc, liveness):
    v = []
    if outcome["escaped"]:
        exc, site, msg = outcome["escaped"]
        v.append(violation("escape", f"{PROP} escape:{exc}@{site}",
                           f"fault {fault_desc}: {exc} left Transition.sample ({site}): {msg}; system {scn['system']['kind']}, integrator {scn['integrator']['type']}/{scn['integrator'].get('solver')}, transition {scn['transition']['type']}",
                           fault=fault_desc))
    for x in ctx.violations:
        y = dict(x)
        y["sig"] = f"{PROP} {x['sig']}"
        y["msg"] = f"fault {fault_desc}: {x['msg']}"
        y["detail"] = {"fault": fault_desc}
        v.append(y)
    if liveness and not outcome["escaped"] and outcome.get("poisoned"):
        v.append(violation("poisoned-state", f"{PROP} poisoned-state-after-faults",
                           f"fault {fault_desc}: {outcome['poisoned']}", fault=fault_desc))
    return v


def run_scenario(scn):
    warnings.simplefilter("ignore")
    np.seterr(all="ignore")
    stats = {"faulted_runs": 0, "fired": {}, "outcome": {}, "pilot_calls": 0, "pilot_calls_in_transition": 0, "discarded": {},
             "solves": 0, "steps": 0, "multi_fault_runs": 0, "region_runs": 0, "forced_nonconvergence_runs": 0}
    keys, viols = [], []
    sample = {"system": scn["system"]["kind"], "integrator": scn["integrator"], "transition": scn["transition"], "n_iter": scn["n_iter"]}
    cfg = digest({k: v for k, v in scn.items() if k not in ("plan_seed",)})
    # pilot
    ctx0, out0 = fs.run_chain(scn)
    if out0["escaped"] or ctx0.violations:
        # a fault-free run must satisfy everything as well
        viols.extend(judge_run(ctx0, out0, scn, "none (fault-free pilot)", False))
        return {"violations": viols, "stats": stats, "keys": keys, "sample": sample, "evaluations": 1}
    # (statistic only) is the fault-free chain, extended by the clean iterations, completely flag-free?
    ctx_l, out_l = fs.run_chain(scn, extra_clean_iters=8)
    healthy = not out_l["escaped"] and not out_l["flags"] and out_l["iters"] == scn["n_iter"] + 8
    stats["healthy_scenarios"] = int(healthy)
    cat = [c for c in ctx0.catalogue if c[4]]  # calls made inside transition.sample
    stats["pilot_calls"] = len(ctx0.catalogue)
    stats["pilot_calls_in_transition"] = len(cat)
    n_solves = ctx0.solves
    sample["pilot_calls_in_transition"] = len(cat)
    plan = []
    if scn.get("plan") is not None:
        plan = scn["plan"]
    else:
        rng = rng_for(scn["plan_seed"], "plan")
        singles = []
        for idx, fn, in_solve, _in_step, _in_tr in cat:
            for kind in applicable_kinds(fn, in_solve):
                singles.append({"faults": [{"at": idx, "fn": fn, "kind": kind}], "live": kind in fs.EXC_KINDS})
        budget = scn["max_faults"]
        n_extra = max(6, budget // 8)
        if len(singles) > budget - n_extra:
            singles = rng.sample(singles, budget - n_extra)
        plan.extend(singles)
        # forced non-convergence of the j-th solve
        for j in (rng.sample(range(1, n_solves + 1), min(n_solves, n_extra // 3)) if n_solves else []):
            plan.append({"faults": [], "solver_fail_at": [j], "live": True})
        # multi-fault sequences
        for _ in range(n_extra // 3):
            if len(cat) >= 2:
                picks = rng.sample(cat, min(len(cat), rng.choice([2, 3, 4])))
                plan.append({"faults": [{"at": c[0], "fn": c[1], "kind": rng.choice(applicable_kinds(c[1], c[2]))} for c in picks], "live": False})
        # region faults (deterministic bad region of one function)
        fns = sorted({c[1] for c in cat})
        import random as _random

        start = zoo.start_position(scn["system"], _random.Random(scn["chain_seed"]), variant=scn.get("start_variant", 0))
        for _ in range(n_extra // 3):
            fn = rng.choice(fns)
            axis = rng.randrange(len(start))
            thr = float(start[axis]) + rng.choice([-0.6, -0.3, 0.3, 0.6])
            side = 1 if thr > start[axis] else -1  # the bad region never contains the start position
            plan.append({"faults": [], "region": {"fn": fn, "axis": axis, "thr": thr, "side": side,
                                                  "kind": rng.choice(list(fs.VALUE_KINDS) + list(fs.EXC_KINDS))}, "live": False})
    for item in plan:
        faults = item.get("faults", [])
        ctx, out = fs.run_chain(scn, faults=faults, region=item.get("region"), solver_fail_at=item.get("solver_fail_at"),
                                extra_clean_iters=8 if item.get("live") else 0)
        stats["faulted_runs"] += 1
        stats["solves"] += ctx.solves
        stats["steps"] += ctx.counters.get("steps", 0)
        if item.get("region"):
            stats["region_runs"] += 1
        if item.get("solver_fail_at"):
            stats["forced_nonconvergence_runs"] += 1
        if len(faults) > 1:
            stats["multi_fault_runs"] += 1
        for (_i, fn, kind, in_solve) in ctx.fired:
            stats["fired"][kind] = stats["fired"].get(kind, 0) + 1
        cls = classify(ctx, out)
        stats["outcome"][cls] = stats["outcome"].get(cls, 0) + 1
        if ctx.fired:
            f0 = ctx.fired[0]
            keys.append(digest([cfg, f0[1], f0[2], f0[3], cls]))
        desc = {k: v for k, v in item.items() if k != "live"}
        live = bool(item.get("live")) and bool(ctx.fired)
        stats["clean_continuations_compared"] = stats.get("clean_continuations_compared", 0) + ctx.counters.get("clean_continuations_compared", 0)
        if live and out.get("clean_success_after_faults") is False:
            stats["no_flag_free_transition_after_faults"] = stats.get("no_flag_free_transition_after_faults", 0) + 1
        vs = judge_run(ctx, out, scn, desc, live)
        if vs:
            for x in vs:
                x["detail"] = {"plan_item": item}
            viols.extend(vs)
    # dedupe by signature within the scenario (keep first of each)
    seen, uniq = set(), []
    for x in viols:
        if x["sig"] not in seen:
            seen.add(x["sig"])
            uniq.append(x)
    return {"violations": uniq, "stats": stats, "keys": keys, "sample": sample, "evaluations": stats["faulted_runs"]}


def minimise(scn, viol, still_fails):
    cur = copy.deepcopy(scn)
    item = (viol.get("detail") or {}).get("plan_item")
    if item is not None:
        cand = copy.deepcopy(cur)
        cand["plan"] = [item]
        if still_fails(cand):
            cur = cand
            # drop faults one by one
            fl = list(item.get("faults", []))
            k = 0
            while len(fl) > 1 and k < len(fl):
                trial = fl[:k] + fl[k + 1 :]
                cand = copy.deepcopy(cur)
                cand["plan"] = [{**item, "faults": trial}]
                if still_fails(cand):
                    fl = trial
                    cur = cand
                else:
                    k += 1
    return cur
