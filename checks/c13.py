"""C13 — sampler outputs record exactly the post-iteration chain states (engine E2)."""

from __future__ import annotations

import copy
import warnings

import numpy as np

from engines import chainoracle as orc
from engines import chainsim
from simkit.core import rng_for, violation, digest

PROP = "C13"
LEVEL = "exploration"
RULE = (
    "seeded sample_chains configurations (sampler class, system, chains, warm-up/main counts incl. 0, "
    "trace sets, adapters, stager, storage, n_process incl. None, init-state form, generator type) run under "
    "the process simulator with a seeded schedule; oracle = ground-truth log written by recording transitions. "
    "distinct_nontrivial = distinct (configuration digest, schedule digest) with >=2 stages or >=2 chains."
)
ASSUMPTIONS = [
    "simulated workers are threads separated by pickle round trips; process-global state of real workers is not modelled",
    "durable image = file content at the last flush() on any handle of that file",
    "runs ending in mici's documented AdaptationError are discarded (counted), not judged",
]
REAL_VS_STUB = "real: all of mici, numpy memmap files; stub: process pool, manager queues, OS scheduler, os.cpu_count, durability boundary"
WALL_CAP_S = {"quick": 240, "thorough": 3000}
MIN_EVALUATIONS = {"quick": 100, "thorough": 1000}

N = {"quick": 640, "thorough": 40000}


def scenarios(tier, seed):
    out = []
    for i in range(N[tier]):
        rng = rng_for(seed, PROP, i)
        scn = chainsim.random_scenario(rng)
        scn["storage_group"] = rng.random() < 0.25 and scn["n_process"] == 1
        out.append(scn)
    return out


def n_stages_run(rec):
    per_chain = {}
    for c in rec.log.calls:
        per_chain[c["chain"]] = per_chain.get(c["chain"], 0) + 1
    return max(per_chain.values()) if per_chain else 0


def judge(rec):
    v = []
    disc = orc.documented_discard(rec)
    if disc:
        return v, disc
    if rec.outcome != "returned":
        site = rec.error_site or "?"
        v.append(
            violation(
                "no-normal-return",
                f"{PROP} {rec.outcome}@{site}",
                f"sample_chains did not return normally: {rec.outcome}\n{(rec.error or '')[-1200:]}",
            )
        )
        return v, None
    v.extend(orc.check_complete_run(rec, PROP))
    v.extend(orc.check_durability(rec, PROP))
    return v, None


def run_scenario(scn):
    warnings.simplefilter("ignore")
    np.seterr(all="ignore")
    stats = {"runs": 0, "discarded": {}, "outcomes": {}, "parallel_runs": 0, "memmap_runs": 0,
             "flush_calls": 0, "sched_steps": 0, "transition_calls": 0, "storage_groups": 0}
    keys = []
    rec = chainsim.run_scenario_raw(scn)
    stats["runs"] += 1
    stats["outcomes"][rec.outcome] = 1
    stats["transition_calls"] += len(rec.log.entries)
    stats["flush_calls"] += rec.disk_flush_calls
    if rec.sim is not None:
        stats["parallel_runs"] += 1
        stats["sched_steps"] += rec.sim.steps
    if scn.get("storage") != "mem":
        stats["memmap_runs"] += 1
    viols, disc = judge(rec)
    if disc:
        stats["discarded"][disc] = 1
    cfg = {k: v for k, v in scn.items() if k not in ("sched", "run_seed")}
    if rec.outcome == "returned" and (scn["n_chain"] >= 2 or n_stages_run(rec) >= 2):
        keys.append(digest([cfg, rec.schedule_digest]))
    # storage equivalence group
    if not viols and not disc and scn.get("storage_group") and rec.outcome == "returned":
        stats["storage_groups"] += 1
        base = chainsim.outputs_digest(rec.outputs)
        for storage in ("mem", "memmap_tmp", "memmap_dir"):
            if storage == scn.get("storage"):
                continue
            s2 = copy.deepcopy(scn)
            s2["storage"] = storage
            r2 = chainsim.run_scenario_raw(s2)
            stats["runs"] += 1
            stats["flush_calls"] += r2.disk_flush_calls
            if r2.outcome != "returned" or chainsim.outputs_digest(r2.outputs) != base:
                viols.append(
                    violation(
                        "storage-differs",
                        f"{PROP} storage-differs",
                        f"storage={storage} gave outcome {r2.outcome} / different values than storage={scn.get('storage')}",
                        storage=storage,
                    )
                )
                break
            v2, _ = judge(r2)
            viols.extend(v2)
    sample = {
        "sampler": scn["sampler"], "n_chain": scn["n_chain"], "n_warm_up": scn["n_warm_up"], "n_main": scn["n_main"],
        "trace": scn.get("trace"), "adapters": scn.get("adapters"), "stager": scn.get("stager"), "storage": scn.get("storage"),
        "n_process": scn.get("n_process"), "policy": scn["sched"]["policy"], "outcome": rec.outcome,
        "assignment": rec.assign, "schedule_prefix": (rec.schedule or [])[:12],
    }
    return {"violations": viols, "stats": stats, "keys": keys, "sample": sample, "evaluations": stats["runs"],
            "digest": digest([rec.outcome, chainsim.outputs_digest(rec.outputs), rec.event_digest])}


def minimise(scn, viol, still_fails):
    """Greedy shrink of the configuration while the same violation persists."""
    cur = copy.deepcopy(scn)
    cur["storage_group"] = scn.get("storage_group", False)

    def try_set(key, val):
        nonlocal cur
        if cur.get(key) == val:
            return
        cand = copy.deepcopy(cur)
        cand[key] = val
        if still_fails(cand):
            cur = cand

    for _ in range(2):
        try_set("sched", {**cur["sched"], "policy": "lowest"})
        for k, vals in (
            ("n_chain", [1, 2]), ("n_warm_up", [0, 1, 2]), ("n_main", [0, 1, 2]), ("stager", [None]),
            ("adapters", [[], None]), ("trace", ["pos"]), ("storage", ["mem"]), ("bitgen", ["PCG64"]),
            ("trace_warm_up", [False]), ("monitor_stats", [None]),
        ):
            for val in vals:
                if k == "monitor_stats" and k not in cur:
                    continue
                try_set(k, val)
        if cur.get("n_process") not in (1,):
            try_set("n_process", 2)
            try_set("n_process", 1)
    return cur
