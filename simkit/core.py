"""Shared simulation kit: seeds, event logs, batch runner, evidence, known findings.

Everything random in a check derives from one integer (VERIF_SEED) through
``derive_seed``; nothing in here reads a clock for a decision or draws from a PRNG
while logging.
"""

from __future__ import annotations

import faulthandler
import hashlib
import json
import os
import signal
import random
import sys
import time
import traceback
from concurrent.futures import ProcessPoolExecutor, as_completed
from concurrent.futures.process import BrokenProcessPool
from pathlib import Path
import multiprocessing as mp

VERIF_DIR = Path(__file__).resolve().parent.parent
EVIDENCE_DIR = VERIF_DIR / "evidence"
REPLAY_DIR = VERIF_DIR / "replays"
KNOWN_FINDINGS = VERIF_DIR / "KNOWN_FINDINGS.txt"

LEVELS = (
    "exploration",
    "fault_enumeration",
    "model_checking",
    "proof",
    "translation_validation",
    "other",
)


def setup_mici_path() -> str:
    """Put the mici source tree under test first on sys.path and return it."""
    src = os.environ.get("MICI_SRC", "/repo/src")
    if src in sys.path:
        sys.path.remove(src)
    sys.path.insert(0, src)
    for var in ("OMP_NUM_THREADS", "MKL_NUM_THREADS", "OPENBLAS_NUM_THREADS"):
        os.environ.setdefault(var, "1")
    return src


def mici_source_digest() -> str:
    src = Path(os.environ.get("MICI_SRC", "/repo/src")) / "mici"
    h = hashlib.sha256()
    for p in sorted(src.rglob("*.py")):
        h.update(str(p.relative_to(src)).encode())
        h.update(p.read_bytes())
    return h.hexdigest()[:16]


def base_seed() -> int:
    try:
        return int(os.environ.get("VERIF_SEED", "0"))
    except ValueError:
        return 0


def tier() -> str:
    t = os.environ.get("VERIF_TIER", "quick")
    return t if t in ("quick", "thorough") else "quick"


def derive_seed(*parts) -> int:
    """Deterministic 63-bit integer from any json-able parts."""
    data = json.dumps(parts, sort_keys=True, default=str).encode()
    return int.from_bytes(hashlib.sha256(data).digest()[:8], "big") >> 1


def rng_for(*parts) -> random.Random:
    return random.Random(derive_seed(*parts))


def digest(obj) -> str:
    return hashlib.sha256(
        json.dumps(obj, sort_keys=True, default=_json_default).encode()
    ).hexdigest()[:16]


def _json_default(o):
    try:
        import numpy as np

        if isinstance(o, np.ndarray):
            return {"__nd__": o.tolist()}
        if isinstance(o, (np.integer,)):
            return int(o)
        if isinstance(o, (np.floating,)):
            return float(o)
        if isinstance(o, (np.bool_,)):
            return bool(o)
    except ImportError:  # pragma: no cover
        pass
    if isinstance(o, (set, frozenset)):
        return sorted(o, key=str)
    if isinstance(o, bytes):
        return o.hex()
    if isinstance(o, Path):
        return str(o)
    return repr(o)


def jsonable(o):
    """Round-trip through JSON so that what we keep is what a replay file holds."""
    return json.loads(json.dumps(o, default=_json_default))


class EventLog:
    """Append-only structural event log with a canonical digest."""

    def __init__(self):
        self.events = []

    def add(self, *ev):
        self.events.append(list(ev))

    def digest(self):
        return digest(self.events)

    def __len__(self):
        return len(self.events)


# --------------------------------------------------------------------------------------
# violations


def violation(cls: str, sig: str, msg: str, **detail) -> dict:
    """A violation record.

    cls: coarse violation class (used to decide 'same violation' while minimising)
    sig: specific signature (matched against KNOWN_FINDINGS.txt)
    """
    return {"cls": cls, "sig": sig, "msg": msg[:2000], "detail": jsonable(detail)}


def load_known_findings(prop: str):
    """Return (findings, fixed) for a property: lists of (sig, text)."""
    findings, fixed = [], []
    if not KNOWN_FINDINGS.exists():
        return findings, fixed
    for line in KNOWN_FINDINGS.read_text().splitlines():
        line = line.strip()
        if not line or line.startswith("#"):
            continue
        if line.startswith("finding:"):
            rest = line[len("finding:") :].strip()
            fields = dict(
                f.split("=", 1) for f in rest.split()[:2] if "=" in f
            )
            if fields.get("property") == prop and "sig" in fields:
                findings.append((fields["sig"], rest))
        elif line.startswith("fixed:"):
            rest = line[len("fixed:") :].strip()
            if rest.startswith(f"property={prop} "):
                fixed.append(rest)
    return findings, fixed


# --------------------------------------------------------------------------------------
# batch runner


class HarnessError(Exception):
    pass


def _task_wrapper(func, task, timeout_s):
    # runs inside a forked worker
    faulthandler.enable()
    if timeout_s:
        # soft limit: an exception in this task only; hard limit (kills the worker, and with it the
        # pool) only if the soft one cannot be delivered because the task is stuck outside Python code
        def _soft(signum, frame):  # noqa: ARG001
            raise HarnessError(f"task exceeded its {timeout_s}s budget")

        signal.signal(signal.SIGALRM, _soft)
        signal.alarm(int(timeout_s))
        faulthandler.dump_traceback_later(timeout_s + 120, exit=True)
    try:
        return ("ok", func(task))
    except BaseException as e:  # noqa: BLE001
        return ("harness_error", f"{type(e).__name__}: {e}\n{traceback.format_exc()}")
    finally:
        if timeout_s:
            signal.alarm(0)
            faulthandler.cancel_dump_traceback_later()


def n_workers(default=16):
    try:
        return max(1, int(os.environ.get("VERIF_WORKERS", default)))
    except ValueError:
        return default


def run_batch(func, tasks, *, workers=None, task_timeout_s=300, wall_cap_s=None):
    """Run func(task) for each task in forked worker processes.

    Returns list of (status, result) in task order; status in {"ok", "harness_error",
    "not_run"}.  A dead worker or a per-task timeout is a harness error, never a pass.
    """
    workers = workers or n_workers()
    tasks = list(tasks)
    out = [("not_run", None)] * len(tasks)
    if not tasks:
        return out
    t0 = time.monotonic()
    if workers == 1:
        for i, t in enumerate(tasks):
            if wall_cap_s and time.monotonic() - t0 > wall_cap_s:
                break
            out[i] = _task_wrapper(func, t, 0)
        return out
    ctx = mp.get_context("fork")
    ex = ProcessPoolExecutor(max_workers=min(workers, len(tasks)), mp_context=ctx)
    try:
        futs = {}
        for i, t in enumerate(tasks):
            futs[ex.submit(_task_wrapper, func, t, task_timeout_s)] = i
        remaining = None if wall_cap_s is None else max(1.0, wall_cap_s)
        try:
            for fut in as_completed(futs, timeout=remaining):
                i = futs[fut]
                try:
                    out[i] = fut.result()
                except BrokenProcessPool as e:
                    out[i] = ("harness_error", f"worker died: {e}")
                except Exception as e:  # noqa: BLE001
                    out[i] = ("harness_error", f"{type(e).__name__}: {e}")
        except TimeoutError:
            for fut, i in futs.items():
                if not fut.done():
                    fut.cancel()
    finally:
        procs = list((getattr(ex, "_processes", None) or {}).values())
        ex.shutdown(wait=False, cancel_futures=True)
        # make sure no stray children survive a wall cap
        for p in procs:
            try:
                if p.is_alive():
                    p.terminate()
            except Exception:  # noqa: BLE001
                pass
    return out


# --------------------------------------------------------------------------------------
# evidence


def write_evidence(
    prop: str,
    *,
    level: str,
    evaluations: int,
    distinct_nontrivial: int,
    rule: str,
    samples: list,
    wall_s: float,
    violations: int,
    assumptions: list[str],
    extra: dict | None = None,
    seed: int | None = None,
    tier_name: str | None = None,
):
    assert level in LEVELS
    cov = {
        "evaluations": int(evaluations),
        "distinct_nontrivial": int(distinct_nontrivial),
        "rule": rule,
        "samples": jsonable(samples)[:8] if samples else [],
    }
    if extra:
        cov.update(jsonable(extra))
    ev = {
        "property_id": prop,
        "tier": tier_name or tier(),
        "seed": int(base_seed() if seed is None else seed),
        "level": level,
        "coverage": cov,
        "assumptions": list(assumptions),
        "wall_s": round(float(wall_s), 3),
        "violations": int(violations),
    }
    EVIDENCE_DIR.mkdir(exist_ok=True)
    path = EVIDENCE_DIR / f"{prop}.json"
    tmp = path.with_suffix(".json.tmp")
    tmp.write_text(json.dumps(ev, indent=1, sort_keys=True))
    os.replace(tmp, path)
    return path


def write_replay(prop: str, scenario: dict, viol: dict, index: int = 0) -> Path:
    REPLAY_DIR.mkdir(exist_ok=True)
    name = f"{prop}-{base_seed()}-{index}-{digest([scenario, viol['sig']])[:8]}.json"
    path = REPLAY_DIR / name
    path.write_text(
        json.dumps(
            {
                "property": prop,
                "scenario": jsonable(scenario),
                "violation": viol,
                "mici_source_digest": mici_source_digest(),
                "how_to_replay": f"cd /verif && /venv/bin/python -m checks.run {prop} --replay {path}",
            },
            indent=1,
            sort_keys=True,
        )
    )
    return path
