"""Process-global hook state shared by all Hooked model functions and trace functions.

The simulators set ``HANDLER`` to a callable ``handler(name, q) -> None | action``.
If it returns an ``action`` (callable ``action(fn, q)``) the Hooked wrapper returns
``action(fn, q)`` instead of ``fn(q)``; the handler may also raise (interrupt / error
injection).  With no handler installed the wrappers are transparent.
"""

from __future__ import annotations

HANDLER = None


def on_call(name, q):
    h = HANDLER
    if h is None:
        return None
    return h(name, q)


def install(handler):
    global HANDLER
    HANDLER = handler


def clear():
    global HANDLER
    HANDLER = None
