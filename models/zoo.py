"""Importable (hence picklable) model zoo with analytic derivatives.

Every system is built from a JSON-able *spec* so that a replay file describes the
model completely.  Closures returned to mici (matrix-Tressian / vector-Jacobian /
matrix-Hessian products) capture **copies** of their input so that the harness never
aliases a state array (see DESIGN.md C09 soundness rules).

Model functions can be wrapped by ``Hooked`` callables which share a process-global
call counter (models.hooks) used for interrupt / fault injection and for counting.
"""

from __future__ import annotations

import numpy as np

from models import hooks


# --------------------------------------------------------------------------------------
# target densities


class Quartic:
    """nld(q) = offset + scale * (0.5 q^T A q + b * sum(q^4) + c.q)  (smooth, non-quadratic)."""

    def __init__(self, A, b, c, offset=0.0, scale=1.0, nan_beyond=None, center=None):
        self.A = np.array(A, dtype=float)
        # translation: the density is that of q - center (large coordinates, e.g. parameters in small units)
        self.center = None if center is None else np.array(center, dtype=float)
        self.b = float(b)
        self.c = np.array(c, dtype=float)
        self.offset = float(offset)
        self.scale = float(scale)
        # restricted support: the density is NaN (not an error) where q[0] exceeds this bound
        self.nan_beyond = None if nan_beyond is None else float(nan_beyond)

    def nld(self, q):
        q = np.asarray(q, dtype=float)
        if self.nan_beyond is not None and q[0] > self.nan_beyond:
            return float("nan")
        if self.center is not None:
            q = q - self.center
        return self.offset + self.scale * (
            0.5 * q @ self.A @ q + self.b * np.sum(q**4) + self.c @ q
        )

    def grad(self, q):
        q = np.asarray(q, dtype=float)
        if self.center is not None:
            q = q - self.center
        return self.scale * (self.A @ q + 4 * self.b * q**3 + self.c)

    def grad_t(self, q):
        return self.grad(q), self.nld(q)

    def hess(self, q):
        q = np.asarray(q, dtype=float)
        if self.center is not None:
            q = q - self.center
        return self.scale * (self.A + 12 * self.b * np.diag(q**2))

    def hess_t(self, q):
        return self.hess(q), self.grad(q), self.nld(q)

    def mtp(self, q):
        q = np.array(q, dtype=float)
        if self.center is not None:
            q = q - self.center
        return _QuarticMTP(q, self.b * self.scale)

    def mtp_t(self, q):
        return self.mtp(q), self.hess(q), self.grad(q), self.nld(q)


class _QuarticMTP:
    def __init__(self, q, b):
        self.q, self.b = q, b

    def __call__(self, m):
        return 24 * self.b * self.q * np.diag(m)


def quartic_from_seed(rng, dim, *, offset=0.0, scale=1.0, coupled=True):
    """rng: random.Random; returns spec dict for a Quartic."""
    if coupled and dim > 1:
        L = [[rng.uniform(-0.5, 0.5) if j < i else 0.0 for j in range(dim)] for i in range(dim)]
        L = np.array(L) + np.diag([rng.uniform(0.7, 1.4) for _ in range(dim)])
        A = (L @ L.T).tolist()
    else:
        A = np.diag([rng.uniform(0.5, 2.0) for _ in range(dim)]).tolist()
    return {
        "A": A,
        "b": rng.choice([0.0, 0.05, 0.1, 0.3]),
        "c": [rng.uniform(-0.5, 0.5) for _ in range(dim)],
        "offset": offset,
        "scale": scale,
    }


# --------------------------------------------------------------------------------------
# position-dependent metrics (value + vector-Jacobian product)


class _Closure:
    """Picklable closure: fn(captured..., arg)."""

    def __init__(self, fn, *captured):
        self.fn, self.captured = fn, captured

    def __call__(self, v):
        return self.fn(*self.captured, v)


def m_scalar(q):
    return 1.0 + 0.5 * np.sum(q**2)


def _vjp_scalar(q, v):
    return v * q


def vjp_scalar(q):
    return _Closure(_vjp_scalar, np.array(q, dtype=float))


def vjp_scalar_t(q):
    return vjp_scalar(q), m_scalar(q)


def m_diag(q):
    return 1.0 + q**2


def _vjp_diag(q, v):
    return 2 * q * v


def vjp_diag(q):
    return _Closure(_vjp_diag, np.array(q, dtype=float))


def vjp_diag_t(q):
    return vjp_diag(q), m_diag(q)


def m_dense(q):
    return np.eye(q.size) + 0.5 * np.outer(q, q) + 0.3 * np.diag(q**2)


def _vjp_dense(q, v):
    return 0.5 * (v @ q) + 0.5 * (v.T @ q) + 0.6 * np.diag(v) * q


def vjp_dense(q):
    return _Closure(_vjp_dense, np.array(q, dtype=float))


def vjp_dense_t(q):
    return vjp_dense(q), m_dense(q)


def m_chol(q):
    n = q.size
    return np.diag(1 + 0.1 * q**2) + 0.2 * np.tril(np.ones((n, 1)) * q[None, :], -1)


def _vjp_chol(q, v):
    v = np.tril(v)
    return 0.2 * q * np.diag(v) + 0.2 * (v - np.diag(np.diag(v))).sum(0)


def vjp_chol(q):
    return _Closure(_vjp_chol, np.array(q, dtype=float))


def vjp_chol_t(q):
    return vjp_chol(q), m_chol(q)


# --------------------------------------------------------------------------------------
# constraints (value, Jacobian, matrix-Hessian product)


def constr_sphere(q):
    return np.array([np.sum(q**2) - 1.0])


def jac_sphere(q):
    return 2 * np.array(q, dtype=float)[None, :]


def jac_sphere_t(q):
    return jac_sphere(q), constr_sphere(q)


def _mhp_sphere(m):
    return 2 * m[0]


def mhp_sphere(q):  # noqa: ARG001
    return _mhp_sphere


def mhp_sphere_t(q):
    return _mhp_sphere, jac_sphere(q), constr_sphere(q)


def constr_two(q):
    return np.array([np.sum(q**2) - 1.0, q[0] - 0.5 * q[1] ** 2])


def jac_two(q):
    j = np.zeros((2, q.size))
    j[0] = 2 * q
    j[1, 0] = 1.0
    j[1, 1] = -q[1]
    return j


def jac_two_t(q):
    return jac_two(q), constr_two(q)


def _mhp_two(m):
    out = 2 * m[0].copy()
    out[1] += -m[1, 1]
    return out


def mhp_two(q):  # noqa: ARG001
    return _mhp_two


def mhp_two_t(q):
    return _mhp_two, jac_two(q), constr_two(q)


LIN_ROW = np.array([[1.0, 2.0, -1.0, 0.5, -0.3, 0.2]])


def constr_lin(q):
    return LIN_ROW[:, : q.size] @ q - 0.5


def jac_lin(q):
    return LIN_ROW[:, : q.size].copy()


def jac_lin_t(q):
    return jac_lin(q), constr_lin(q)


def _mhp_lin(m):
    return np.zeros(m.shape[1])


def mhp_lin(q):  # noqa: ARG001
    return _mhp_lin


def mhp_lin_t(q):
    return _mhp_lin, jac_lin(q), constr_lin(q)


def constr_ellipse(q):
    # curved, dimension-generic: sum w_i q_i^2 - 1 with w = (1, 2, 0.5, 1, ...)
    w = _ELL_W[: q.size]
    return np.array([np.sum(w * q**2) - 1.0])


_ELL_W = np.array([1.0, 2.0, 0.5, 1.0, 1.5, 0.8])


def jac_ellipse(q):
    return (2 * _ELL_W[: q.size] * q)[None, :]


def jac_ellipse_t(q):
    return jac_ellipse(q), constr_ellipse(q)


def _mhp_ellipse(m):
    return 2 * _ELL_W[: m.shape[1]] * m[0]


def mhp_ellipse(q):  # noqa: ARG001
    return _mhp_ellipse


def mhp_ellipse_t(q):
    return _mhp_ellipse, jac_ellipse(q), constr_ellipse(q)


def constr_wavy(q):
    # strongly curved: q1 = 0.6 sin(3 q0)
    return np.array([q[1] - 0.6 * np.sin(3 * q[0])])


def jac_wavy(q):
    j = np.zeros((1, q.size))
    j[0, 0] = -1.8 * np.cos(3 * q[0])
    j[0, 1] = 1.0
    return j


def jac_wavy_t(q):
    return jac_wavy(q), constr_wavy(q)


class _MhpWavy:
    def __init__(self, q0):
        self.q0 = q0

    def __call__(self, m):
        out = np.zeros(m.shape[1])
        out[0] = m[0, 0] * 5.4 * np.sin(3 * self.q0)
        return out


def mhp_wavy(q):
    return _MhpWavy(float(q[0]))


def mhp_wavy_t(q):
    return mhp_wavy(q), jac_wavy(q), constr_wavy(q)

_PL_T = 1e-2
PLANES = np.array([[1.0, 0.0, 0, 0, 0, 0], [np.cos(_PL_T), np.sin(_PL_T), 0, 0, 0, 0]])


def constr_planes(q):
    """Two planes meeting at an angle of 1e-2 rad: a well-posed but ill-conditioned pair."""
    return PLANES[:, : q.size] @ q - np.array([0.3, 0.3 * np.cos(_PL_T)])


def jac_planes(q):
    return PLANES[:, : q.size].copy()


def jac_planes_t(q):
    return jac_planes(q), constr_planes(q)


def _mhp_planes(m):
    return np.zeros(m.shape[1])


def mhp_planes(q):  # noqa: ARG001
    return _mhp_planes


def mhp_planes_t(q):
    return _mhp_planes, jac_planes(q), constr_planes(q)


CONSTRAINTS = {
    "planes": (constr_planes, jac_planes, jac_planes_t, mhp_planes, mhp_planes_t),
    "sphere": (constr_sphere, jac_sphere, jac_sphere_t, mhp_sphere, mhp_sphere_t),
    "two": (constr_two, jac_two, jac_two_t, mhp_two, mhp_two_t),
    "lin": (constr_lin, jac_lin, jac_lin_t, mhp_lin, mhp_lin_t),
    "ellipse": (constr_ellipse, jac_ellipse, jac_ellipse_t, mhp_ellipse, mhp_ellipse_t),
    "wavy": (constr_wavy, jac_wavy, jac_wavy_t, mhp_wavy, mhp_wavy_t),
}


def on_manifold_start(name: str, dim: int, variant: int = 0):
    """A point satisfying the named constraint exactly (to rounding)."""
    if name == "sphere":
        base = [
            np.array([0.6, 0.0, 0.8, 0, 0, 0]),
            np.array([0.0, -0.6, 0.8, 0, 0, 0]),
            np.array([1 / 3, 2 / 3, 2 / 3, 0, 0, 0]),
        ][variant % 3][:dim]
        return base / np.sqrt(np.sum(base**2))
    if name == "two":
        q1 = [0.8, -0.5, 0.3][variant % 3]
        q0 = 0.5 * q1**2
        q = np.zeros(dim)
        q[0], q[1] = q0, q1
        q[2] = np.sqrt(1 - q0**2 - q1**2) * (1 if variant % 2 == 0 else -1)
        return q
    if name == "lin":
        q = np.zeros(dim)
        q[0] = 0.5
        if variant % 3 == 1:
            q[0], q[1] = 0.1, 0.2
        return q
    if name == "planes":
        q = np.array([0.3, 0.0, 0.4, -0.2, 0.1, 0.5])[:dim] * 1.0
        if dim > 2:
            q[2] = [0.4, -0.7, 0.0][variant % 3]
        return q
    if name == "wavy":
        q = np.array([0.3, 0.0, -0.4, 0.2, 0.1, 0.5])[:dim] * (1 if variant % 2 == 0 else -1)
        q[0] = [0.2, -0.7, 1.1][variant % 3]
        q[1] = 0.6 * np.sin(3 * q[0])
        return q
    if name == "ellipse":
        base = np.array([0.5, 0.4, 0.7, 0.2, 0.1, 0.3])[:dim] * (1 if variant % 2 == 0 else -1)
        w = _ELL_W[:dim]
        return base / np.sqrt(np.sum(w * base**2))
    raise KeyError(name)


# --------------------------------------------------------------------------------------
# hooks around model functions


class Hooked:
    """Picklable wrapper that reports each call to models.hooks before delegating."""

    def __init__(self, fn, name):
        self.fn, self.name = fn, name

    def __call__(self, q):
        action = hooks.on_call(self.name, q)
        if action is not None:
            return action(self.fn, q)
        return self.fn(q)


def _h(fn, name, hooked):
    if not hooked or fn is None:
        return fn
    return Hooked(fn, (hooked + name) if isinstance(hooked, str) else name)


# --------------------------------------------------------------------------------------
# metrics for Euclidean systems


def make_metric(spec, dim):
    """spec: None | {"type": ..., params}  -> value accepted by EuclideanMetricSystem."""
    from mici import matrices as M

    if spec is None or spec.get("type") == "identity":
        return None
    t = spec["type"]
    if t == "identity_sized":
        return M.IdentityMatrix(dim)
    if t == "diag":
        return np.array(spec["diag"], dtype=float)
    if t == "dense":
        return np.array(spec["array"], dtype=float)
    if t == "scaled_identity":
        return M.PositiveScaledIdentityMatrix(float(spec["scalar"]), dim)
    if t == "chol":
        return M.TriangularFactoredPositiveDefiniteMatrix(
            np.array(spec["factor"], dtype=float), factor_is_lower=True
        )
    if t == "eig":
        return M.EigendecomposedPositiveDefiniteMatrix(
            np.array(spec["eigvec"], dtype=float), np.array(spec["eigval"], dtype=float)
        )
    if t == "lowrank":
        return M.PositiveDefiniteLowRankUpdateMatrix(
            np.array(spec["factor"], dtype=float),
            M.PositiveDiagonalMatrix(np.array(spec["diag"], dtype=float)),
        )
    if t == "block":
        blocks = [make_metric_matrix(b) for b in spec["blocks"]]
        return M.PositiveDefiniteBlockDiagonalMatrix(blocks)
    raise KeyError(t)


def make_metric_matrix(spec):
    from mici import matrices as M

    t = spec["type"]
    if t == "diag":
        return M.PositiveDiagonalMatrix(np.array(spec["diag"], dtype=float))
    if t == "dense":
        return M.DensePositiveDefiniteMatrix(np.array(spec["array"], dtype=float))
    if t == "scaled_identity":
        return M.PositiveScaledIdentityMatrix(float(spec["scalar"]), int(spec["size"]))
    raise KeyError(t)


def random_spd(rng, dim):
    a = np.array([[rng.gauss(0, 1) for _ in range(dim)] for _ in range(dim)])
    return (a @ a.T / dim + np.eye(dim)).tolist()


def random_metric_spec(rng, dim, kinds=("identity", "diag", "dense", "scaled_identity", "chol", "eig", "lowrank", "block")):
    t = rng.choice(list(kinds))
    if t == "block" and dim < 2:
        t = "diag"
    if t in ("identity", "identity_sized"):
        return {"type": t}
    if t == "diag":
        return {"type": "diag", "diag": [rng.uniform(0.5, 2.0) for _ in range(dim)]}
    if t == "dense":
        return {"type": "dense", "array": random_spd(rng, dim)}
    if t == "scaled_identity":
        return {"type": "scaled_identity", "scalar": rng.uniform(0.5, 2.0)}
    if t == "chol":
        L = np.tril(np.array([[rng.uniform(-0.4, 0.4) for _ in range(dim)] for _ in range(dim)]), -1)
        L = L + np.diag([rng.uniform(0.7, 1.5) for _ in range(dim)])
        return {"type": "chol", "factor": L.tolist()}
    if t == "eig":
        a = np.array(random_spd(rng, dim))
        w, v = np.linalg.eigh(a)
        return {"type": "eig", "eigvec": v.tolist(), "eigval": w.tolist()}
    if t == "lowrank":
        return {
            "type": "lowrank",
            "factor": [[rng.uniform(-0.5, 0.5)] for _ in range(dim)],
            "diag": [rng.uniform(0.5, 2.0) for _ in range(dim)],
        }
    if t == "block":
        k = dim // 2
        return {
            "type": "block",
            "blocks": [
                {"type": "diag", "diag": [rng.uniform(0.5, 2.0) for _ in range(k)]},
                {"type": "dense", "array": random_spd(rng, dim - k)},
            ],
        }
    raise KeyError(t)


# --------------------------------------------------------------------------------------
# systems

SYSTEM_KINDS = (
    "euclid",
    "gauss",
    "riem_scalar",
    "riem_diag",
    "riem_dense",
    "riem_chol",
    "riem_softabs",
    "con",
    "gcon",
)


def build_system(spec: dict, *, hooked: bool = False):
    """Build a mici system from a JSON-able spec.

    spec keys: kind, dim, target (Quartic params), tuple_conv (bool),
      metric (Euclidean kinds), constraint (name), hausdorff (bool),
      softabs_coeff.
    Returns (system, model).
    """
    import mici

    kind, dim = spec["kind"], spec["dim"]
    model = Quartic(**spec["target"])
    tc = bool(spec.get("tuple_conv", False))
    nld = _h(model.nld, "neg_log_dens", hooked)
    grad = _h(model.grad_t if tc else model.grad, "grad_neg_log_dens", hooked)
    S = mici.systems
    if kind == "euclid":
        return S.EuclideanMetricSystem(nld, metric=make_metric(spec.get("metric"), dim), grad_neg_log_dens=grad), model
    if kind == "gauss":
        return S.GaussianEuclideanMetricSystem(nld, metric=make_metric(spec.get("metric"), dim), grad_neg_log_dens=grad), model
    if kind.startswith("riem_") and kind != "riem_softabs":
        mf, vjp, vjpt, cls, kw = {
            "riem_scalar": (m_scalar, vjp_scalar, vjp_scalar_t, S.ScalarRiemannianMetricSystem, ("metric_scalar_func", "vjp_metric_scalar_func")),
            "riem_diag": (m_diag, vjp_diag, vjp_diag_t, S.DiagonalRiemannianMetricSystem, ("metric_diagonal_func", "vjp_metric_diagonal_func")),
            "riem_dense": (m_dense, vjp_dense, vjp_dense_t, S.DenseRiemannianMetricSystem, ("metric_func", "vjp_metric_func")),
            "riem_chol": (m_chol, vjp_chol, vjp_chol_t, S.CholeskyFactoredRiemannianMetricSystem, ("metric_chol_func", "vjp_metric_chol_func")),
        }[kind]
        return (
            cls(
                nld,
                **{kw[0]: _h(mf, "metric_func", hooked), kw[1]: _h(vjpt if tc else vjp, "vjp_metric_func", hooked)},
                grad_neg_log_dens=grad,
            ),
            model,
        )
    if kind == "riem_softabs":
        return (
            S.SoftAbsRiemannianMetricSystem(
                nld,
                grad_neg_log_dens=grad,
                hess_neg_log_dens=_h(model.hess_t if tc else model.hess, "hess_neg_log_dens", hooked),
                mtp_neg_log_dens=_h(model.mtp_t if tc else model.mtp, "mtp_neg_log_dens", hooked),
                softabs_coeff=float(spec.get("softabs_coeff", 1.3)),
            ),
            model,
        )
    if kind in ("con", "gcon"):
        c, j, jt, mhp, mhpt = CONSTRAINTS[spec["constraint"]]
        constr = _h(c, "constr", hooked)
        jac = _h(jt if tc else j, "jacob_constr", hooked)
        mhpf = _h(mhpt if tc else mhp, "mhp_constr", hooked)
        if kind == "con":
            haus = bool(spec.get("hausdorff", True))
            return (
                S.DenseConstrainedEuclideanMetricSystem(
                    nld,
                    constr,
                    metric=make_metric(spec.get("metric"), dim),
                    dens_wrt_hausdorff=haus,
                    grad_neg_log_dens=grad,
                    jacob_constr=jac,
                    mhp_constr=None if haus else mhpf,
                ),
                model,
            )
        return (
            S.GaussianDenseConstrainedEuclideanMetricSystem(
                nld,
                constr,
                metric=make_metric(spec.get("metric"), dim),
                grad_neg_log_dens=grad,
                jacob_constr=jac,
                mhp_constr=mhpf,
            ),
            model,
        )
    raise KeyError(kind)


def random_system_spec(rng, *, kinds=SYSTEM_KINDS, dims=(1, 2, 3), offset=0.0, scale=1.0, metric_kinds=None):
    kind = rng.choice(list(kinds))
    dim = rng.choice(list(dims))
    spec = {"kind": kind, "tuple_conv": rng.random() < 0.5}
    if kind in ("con", "gcon"):
        cname = rng.choice(["sphere", "two", "lin", "ellipse", "wavy"])
        dim = max(dim, 3) if cname in ("two", "lin") else max(dim, 2)
        spec["constraint"] = cname
        spec["hausdorff"] = rng.random() < 0.5
        mk = metric_kinds or (("identity", "diag", "dense") if kind == "con" else ("identity_sized", "diag", "dense"))
        spec["metric"] = random_metric_spec(rng, dim, mk)
    elif kind in ("euclid", "gauss"):
        mk = metric_kinds or (
            ("identity", "diag", "dense", "scaled_identity", "chol", "eig", "lowrank", "block")
            if kind == "euclid"
            else ("identity_sized", "diag", "dense", "eig")
        )
        spec["metric"] = random_metric_spec(rng, dim, mk)
    elif kind == "riem_softabs":
        spec["softabs_coeff"] = rng.choice([0.5, 1.0, 1.3, 3.0])
    spec["dim"] = dim
    spec["target"] = quartic_from_seed(rng, dim, offset=offset, scale=scale)
    return spec


def start_position(spec, rng, variant=0):
    """A start position appropriate for the system spec (on manifold if constrained)."""
    center = spec["target"].get("center")
    shift = 0.0 if center is None else np.array(center, dtype=float)
    if spec["kind"] in ("con", "gcon"):
        return on_manifold_start(spec["constraint"], spec["dim"], variant) + shift
    return np.array([rng.uniform(-1.2, 1.2) for _ in range(spec["dim"])]) + shift


def compatible_integrators(kind):
    if kind in ("euclid", "gauss"):
        return ["leapfrog", "bcss2", "bcss3", "bcss4", "symcomp", "implicit_leapfrog", "implicit_midpoint"]
    if kind in ("con", "gcon"):
        return ["constrained"]
    return ["implicit_leapfrog", "implicit_midpoint"]


def build_integrator(system, ispec: dict):
    """ispec: {"type":..., "step_size":..., options}."""
    import mici

    I, So = mici.integrators, mici.solvers
    t = ispec["type"]
    eps = ispec.get("step_size")
    fps = {"direct": So.solve_fixed_point_direct, "steffensen": So.solve_fixed_point_steffensen}
    prj = {
        "newton": So.solve_projection_onto_manifold_newton,
        "quasi": So.solve_projection_onto_manifold_quasi_newton,
        "newton_ls": So.solve_projection_onto_manifold_newton_with_line_search,
    }
    if t == "leapfrog":
        return I.LeapfrogIntegrator(system, eps)
    if t == "bcss2":
        return I.BCSSTwoStageIntegrator(system, eps)
    if t == "bcss3":
        return I.BCSSThreeStageIntegrator(system, eps)
    if t == "bcss4":
        return I.BCSSFourStageIntegrator(system, eps)
    if t == "symcomp":
        return I.SymmetricCompositionIntegrator(
            system,
            tuple(ispec["free_coefficients"]),
            step_size=eps,
            initial_h1_flow_step=bool(ispec.get("initial_h1_flow_step", True)),
        )
    if t in ("implicit_leapfrog", "implicit_midpoint"):
        cls = I.ImplicitLeapfrogIntegrator if t == "implicit_leapfrog" else I.ImplicitMidpointIntegrator
        kw = {}
        if "reverse_check_tol" in ispec:
            kw["reverse_check_tol"] = ispec["reverse_check_tol"]
        return cls(
            system,
            eps,
            fixed_point_solver=fps[ispec.get("solver", "direct")],
            fixed_point_solver_kwargs=dict(ispec.get("solver_kwargs", {})),
            **kw,
        )
    if t == "constrained":
        kw = {}
        if "reverse_check_tol" in ispec:
            kw["reverse_check_tol"] = ispec["reverse_check_tol"]
        return I.ConstrainedLeapfrogIntegrator(
            system,
            eps,
            n_inner_step=int(ispec.get("n_inner_step", 1)),
            projection_solver=prj[ispec.get("solver", "newton")],
            projection_solver_kwargs=dict(ispec.get("solver_kwargs", {})),
            **kw,
        )
    raise KeyError(t)


def random_integrator_spec(rng, kind, *, step_size=None, allow_implicit_for_tractable=True):
    opts = compatible_integrators(kind)
    if not allow_implicit_for_tractable and kind in ("euclid", "gauss"):
        opts = [o for o in opts if not o.startswith("implicit")]
    t = rng.choice(opts)
    spec = {"type": t, "step_size": step_size}
    if t == "symcomp":
        n = rng.choice([1, 2, 3])
        spec["free_coefficients"] = [rng.uniform(0.05, 0.3) for _ in range(n)]
        spec["initial_h1_flow_step"] = rng.random() < 0.5
    if t.startswith("implicit"):
        spec["solver"] = rng.choice(["direct", "steffensen"])
    if t == "constrained":
        spec["solver"] = rng.choice(["newton", "quasi", "newton_ls"])
        spec["n_inner_step"] = rng.choice([1, 1, 2, 3])
    return spec
